#!/venv/bin/python
"""Confirm and evaluate independently seeded breakages kept under /verif/seeded/<id>/.

    tools/seeded.py import <agent_out_dir> <PROP> <prefix> <worktree_path>   # copy out/<k> -> seeded/<prefix>-<k>
    tools/seeded.py eval [<id> ...] [--tier quick] [--runs N] [--all-props]

For every seeded change: a scratch worktree of /repo HEAD is created at the path
the demonstration expects (recorded in meta.json; outside /repo and /verif),
  (1) demo.py must exit 0 on the clean worktree,
  (2) patch.diff must apply, the pinned test suite must still pass,
  (3) demo.py must exit 1 with the patch,
  (4) the owning check (quick tier) is run with VERIF_REPO=<worktree>;
the worktree is removed afterwards.  Results go to meta.json (`confirmed`,
`detection`).  Nothing here ever touches /repo's working tree.
"""
import argparse
import json
import os
import shutil
import subprocess
import sys
import time

VERIF = os.path.dirname(os.path.dirname(os.path.abspath(__file__)))
SEEDED = os.path.join(VERIF, "seeded")


def sh(cmd, **kw):
    return subprocess.run(cmd, shell=True, capture_output=True, text=True, **kw)


def cmd_import(args):
    os.makedirs(SEEDED, exist_ok=True)
    out = args.out_dir
    for k in sorted(os.listdir(out)):
        src = os.path.join(out, k)
        if not os.path.isfile(os.path.join(src, "patch.diff")):
            continue
        sid = f"{args.prefix}-{k}"
        dst = os.path.join(SEEDED, sid)
        os.makedirs(dst, exist_ok=True)
        for fn in os.listdir(src):
            if os.path.isfile(os.path.join(src, fn)):
                shutil.copy(os.path.join(src, fn), os.path.join(dst, fn))
        meta = {"id": sid, "property": args.prop, "source": "independent sub-agent given only the property text and its own worktree",
                "worktree_path": args.worktree, "needs": "see notes.md"}
        with open(os.path.join(dst, "meta.json"), "w") as f:
            json.dump(meta, f, indent=1)
        print("imported", sid)


def run_demo(wt, demo):
    # demonstrations may locate the tree through their own path: run a copy placed where
    # the sub-agent had it (<worktree>/out/<k>/demo.py)
    dst_dir = os.path.join(wt, "out", "k")
    os.makedirs(dst_dir, exist_ok=True)
    dst = os.path.join(dst_dir, "demo.py")
    shutil.copy(demo, dst)
    demo = dst
    r = sh(f"cd {wt} && PYTHONPATH={wt} timeout 300 /venv/bin/python {demo}")
    return r.returncode, (r.stdout + r.stderr)[-600:]


def margin(sid, tier, seeds):
    """How robust is the detection?  Re-run the owning quick check under other VERIF_SEED values
    (patch applied to a scratch worktree of HEAD or of the base commit) and record caught/missed per seed."""
    d = os.path.join(SEEDED, sid)
    meta = json.load(open(os.path.join(d, "meta.json")))
    if meta.get("detection", {}).get(meta["property"], {}).get("status") != "caught":
        return
    wt = "/tmp/dsim_margin_wt"
    sh(f"git -C /repo worktree remove --force {wt}")
    shutil.rmtree(wt, ignore_errors=True)
    base = "HEAD" if meta.get("evaluated_on") == "HEAD" else meta.get("base_commit", "a793921")
    sh(f"git -C /repo worktree add --detach {wt} {base}")
    patch = os.path.join(d, "patch_head.diff") if "patch_used" in meta else os.path.join(d, "patch.diff")
    try:
        if sh(f"git -C {wt} apply {patch}").returncode:
            print(sid, "patch does not apply")
            return
        out = {}
        want = set(meta["detection"][meta["property"]]["signatures"])
        ignore = set(meta["detection"][meta["property"]].get("base_tree_signatures_ignored", []))
        for seed in seeds:
            env = dict(os.environ, VERIF_REPO=wt, VERIF_SEED=str(seed), VERIF_EVIDENCE_DIR="/tmp/dsim_margin_out",
                       VERIF_REPLAY_DIR="/tmp/dsim_margin_out")
            c = subprocess.run([os.path.join(VERIF, "check"), "run", meta["property"], "--tier", tier],
                               capture_output=True, text=True, env=env, cwd=VERIF)
            try:
                ev = json.load(open(f"/tmp/dsim_margin_out/{meta['property']}.json"))
                sigs = {v["signature"]: v["count"] for v in ev["coverage"]["violation_signatures"]}
            except Exception:
                sigs = {}
            sigs = {k: v for k, v in sigs.items() if k not in ignore}
            out[str(seed)] = {"exit": c.returncode, "violating_runs": sum(sigs.values()), "signatures": len(sigs)}
        meta["detection_by_seed"] = out
        with open(os.path.join(d, "meta.json"), "w") as f:
            json.dump(meta, f, indent=1)
        print(sid, {k: (v["exit"], v["violating_runs"]) for k, v in out.items()}, flush=True)
    finally:
        sh(f"git -C /repo worktree remove --force {wt}")
        shutil.rmtree(wt, ignore_errors=True)
        shutil.rmtree("/tmp/dsim_margin_out", ignore_errors=True)


def evaluate(sid, tier, runs, all_props):
    d = os.path.join(SEEDED, sid)
    meta = json.load(open(os.path.join(d, "meta.json")))
    wt = meta["worktree_path"]
    assert wt.startswith("/tmp/"), wt
    sh(f"git -C /repo worktree remove --force {wt}")
    shutil.rmtree(wt, ignore_errors=True)
    # the change was written against meta["base_commit"]; use /repo HEAD when the patch still
    # applies there (later fix: commits may touch the same lines), else the base commit
    base = meta.get("base_commit", "a793921")
    r = sh(f"git -C /repo worktree add --detach {wt} HEAD")
    if r.returncode:
        raise SystemExit(r.stderr)
    ported = os.path.join(d, "patch_head.diff")  # the same change re-expressed against a later /repo HEAD
    patch_file = os.path.join(d, "patch.diff")
    if os.path.exists(ported) and sh(f"git -C {wt} apply --check {ported}").returncode == 0:
        patch_file = ported
        meta["patch_used"] = "patch_head.diff (ported by hand: the original no longer applies after later fix: commits)"
    if sh(f"git -C {wt} apply --check {patch_file}").returncode:
        sh(f"git -C /repo worktree remove --force {wt}")
        r = sh(f"git -C /repo worktree add --detach {wt} {base}")
        if r.returncode:
            raise SystemExit(r.stderr)
        meta["evaluated_on"] = base + " (patch no longer applies to HEAD)"
    else:
        meta["evaluated_on"] = "HEAD"
    res = {}
    try:
        demo = os.path.join(d, "demo.py")
        rc0, out0 = run_demo(wt, demo)
        res["demo_without_patch_exit"] = rc0
        a = sh(f"git -C {wt} apply {patch_file}")
        res["patch_applies"] = a.returncode == 0
        if a.returncode:
            res["apply_error"] = a.stderr[-400:]
        t = sh(f"cd {wt} && PYTHONPATH={wt} timeout 900 /venv/bin/python -m pytest -q -p no:cacheprovider 2>&1 | tail -1")
        res["suite_with_patch"] = t.stdout.strip()[-80:]
        rc1, out1 = run_demo(wt, demo)
        res["demo_with_patch_exit"] = rc1
        res["demo_with_patch_output"] = out1[-300:]
        res["confirmed"] = bool(rc0 == 0 and res["patch_applies"] and " passed" in res["suite_with_patch"]
                                and "failed" not in res["suite_with_patch"] and rc1 == 1)
        props = [meta["property"]] + ([p for p in ("C05", "C11", "C12", "C13", "C16") if p != meta["property"]]
                                      if all_props else [])
        det = {}

        def run_check(prop):
            env = dict(os.environ, VERIF_REPO=wt, VERIF_EVIDENCE_DIR="/tmp/dsim_seeded_out",
                       VERIF_REPLAY_DIR="/tmp/dsim_seeded_out")
            cmd = [os.path.join(VERIF, "check"), "run", prop, "--tier", tier] + (["--runs", str(runs)] if runs else [])
            c = subprocess.run(cmd, capture_output=True, text=True, env=env, cwd=VERIF)
            try:
                ev = json.load(open(f"/tmp/dsim_seeded_out/{prop}.json"))
                allsigs = [v["signature"] for v in ev["coverage"]["violation_signatures"]]
            except Exception:
                allsigs = []
            return c, allsigs

        baseline = {}
        if meta["evaluated_on"] != "HEAD":
            # the base commit has defects of its own that were repaired later: only signatures that the
            # patched tree shows IN ADDITION to the unpatched base tree count as detecting this change
            sh(f"git -C {wt} checkout -- .")
            for prop in props:
                baseline[prop] = run_check(prop)[1]
            sh(f"git -C {wt} apply {patch_file}")
        for prop in props:
            cmd = ["run", prop, "--tier", tier] + (["--runs", str(runs)] if runs else [])
            t0 = time.time()
            c, allsigs = run_check(prop)
            base = set(baseline.get(prop, []))
            sigs = [x for x in allsigs if x not in base]
            status = {0: "missed", 1: "caught", 2: "harness-error"}.get(c.returncode)
            if c.returncode == 1 and not sigs:
                status = "missed"  # only the base tree's own (since repaired) defects fired
            det[prop] = {"exit": c.returncode, "status": status,
                         "signatures": sigs[:6], "wall_s": round(time.time() - t0, 1), "cmd": " ".join(cmd)}
            if base:
                det[prop]["base_tree_signatures_ignored"] = sorted(base)[:6]
            if c.returncode == 2:
                det[prop]["stderr"] = c.stderr[-800:]
        res["detection"] = det
    finally:
        sh(f"git -C /repo worktree remove --force {wt}")
        shutil.rmtree(wt, ignore_errors=True)
        shutil.rmtree("/tmp/dsim_seeded_out", ignore_errors=True)
    meta.update(res)
    meta["evaluated_at_repo_head"] = sh("git -C /repo rev-parse --short HEAD").stdout.strip()
    meta["what_was_run"] = ("tools/seeded.py eval: scratch worktree of /repo HEAD at worktree_path; demo.py on clean tree; "
                            "git apply patch.diff; pytest -q (pinned suite); demo.py; ./check run <property> --tier "
                            + tier + " with VERIF_REPO=<worktree>; worktree removed")
    with open(os.path.join(d, "meta.json"), "w") as f:
        json.dump(meta, f, indent=1)
    own = meta["detection"][meta["property"]]
    print(f"{sid}: [{meta['evaluated_on'][:7]}] confirmed={meta['confirmed']} {meta['property']}={own['status']} {own['signatures'][:2]}"
          + "".join(f" {p}={v['status']}" for p, v in meta["detection"].items() if p != meta["property"]))
    return meta


def main():
    ap = argparse.ArgumentParser()
    sub = ap.add_subparsers(dest="cmd", required=True)
    i = sub.add_parser("import")
    i.add_argument("out_dir")
    i.add_argument("prop")
    i.add_argument("prefix")
    i.add_argument("worktree")
    e = sub.add_parser("eval")
    e.add_argument("ids", nargs="*")
    e.add_argument("--tier", default="quick")
    e.add_argument("--runs", type=int)
    e.add_argument("--all-props", action="store_true")
    mg = sub.add_parser("margin")
    mg.add_argument("ids", nargs="*")
    mg.add_argument("--seeds", default="1,2,3")
    mg.add_argument("--tier", default="quick")
    args = ap.parse_args()
    if args.cmd == "import":
        return cmd_import(args)
    if args.cmd == "margin":
        for sid in (args.ids or sorted(os.listdir(SEEDED))):
            margin(sid, args.tier, [int(x) for x in args.seeds.split(",")])
        return
    ids = args.ids or sorted(os.listdir(SEEDED))
    for sid in ids:
        evaluate(sid, args.tier, args.runs, args.all_props)


if __name__ == "__main__":
    sys.exit(main())
