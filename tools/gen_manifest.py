#!/venv/bin/python
"""Regenerates /verif/MANIFEST.json from the tables below (kept in one place so
that it is always schema-valid).  Run: /venv/bin/python tools/gen_manifest.py"""
import json, os, sys

HERE = os.path.dirname(os.path.dirname(os.path.abspath(__file__)))

NA = {
 "C01": "Each instance is one save+open of one input value with explicit utf-8; no history, fault, order, clock or interleaving in the statement. Deciding technique is input generation (property-based round trip), which this family must not be dressed up as. DESIGN.md s2/s5.",
 "C02": "Needs an independent spec decoder swept over labels/keywords/formats; a pure function of (textgrid, format, flags). Nothing for a simulator to schedule or fail. DESIGN.md s5.",
 "C03": "Input-universal differential against an independent writer; the only I/O-looking mechanism (utf-16 then utf-8) is selected deterministically by the file's bytes, not by a fault. DESIGN.md s5.",
 "C04": "Pure function of (entries, threshold, overrides, flags); a sweep over sliver positions/lengths decides it, not schedules or faults. DESIGN.md s5.",
 "C06": "Pure comparison logic on one input; exhaustive enumeration of order types (model checking / PBT) is the right tool. crop is executed inside C05/C12/C13 histories but its functional spec is not checked here. DESIGN.md s5.",
 "C07": "Pure function of (tier, region, mode, doShrink); decided by a dyadic-exhaustive plus decimal-random input sweep. DESIGN.md s5.",
 "C08": "Pure; the insertSpace;eraseRegion composition is still a function of its input, no state is carried in a mutable object. DESIGN.md s5.",
 "C09": "Pure functions of (tier(s), offset, flags) returning fresh values. DESIGN.md s5.",
 "C10": "Pure algebra over pairs of tiers; small-grid exhaustive enumeration decides it. DESIGN.md s5.",
 "C14": "Pure functions of (tier, reference, tolerance). DESIGN.md s5.",
 "C15": "Pure queries and predicates on one input. DESIGN.md s5.",
 "C17": "Each call is a function of (recording, interval list, options); files are only where results land and the statement has no failure/history clause. DESIGN.md s5.",
 "C18": "Termination and correctness of a loop as a function of (samples, target, step); the bounded-liveness flavour has no fault to stop and no schedule to vary. DESIGN.md s5.",
 "C19": "Pure text round trip of numeric data; input generation decides it. DESIGN.md s5.",
 "C20": "Pure numeric functions. DESIGN.md s5.",
}

CHECKS = {}
try:
    sys.path.insert(0, HERE)
    from dsim.registry import MANIFEST_CHECKS as _MC, TABLE as _T
    CHECKS = {k: v for k, v in _MC.items() if k in _T}
except Exception:
    CHECKS = {}

def main():
    checks = []
    for pid in sorted(CHECKS):
        c = CHECKS[pid]
        checks.append({
            "property_id": pid,
            "quick_cmd": f"./check run {pid} --tier quick",
            "thorough_cmd": f"./check run {pid} --tier thorough",
            "evidence_file": f"/verif/evidence/{pid}.json",
            "replay_cmd_template": "./check replay {path}",
            "engine": "dsim",
            "level_claimed": {"category": c["level"], "text": c["text"], "design_ref": c["design_ref"]},
            "level_note": c["note"],
            "technique": c["technique"],
        })
    na = [{"property_id": k, "reason": v} for k, v in sorted(NA.items())]
    pending = [p for p in ("C05", "C11", "C12", "C13", "C16") if p not in CHECKS]
    for p in pending:
        na.append({"property_id": p, "reason": "check under construction in this revision (planned claim, DESIGN.md s4); not yet claimed"})
    na.sort(key=lambda d: d["property_id"])
    m = {
        "version": 1,
        "setup_cmd": "/venv/bin/python -m compileall -q dsim tools && /venv/bin/python -c \"import sys; sys.path.insert(0,'/repo'); import praatio; print('praatio from', praatio.__file__)\"",
        "hooks": {
            "guard": "PRAATIO_VERIF",
            "enable": "no source hooks exist: every seam (io.open, builtins.open, os.path.exists, os.mkdir, sys.stdout) is a module attribute looked up at call time and is replaced from outside by dsim; PRAATIO_VERIF is reserved and unused",
            "baseline_off_cmd": "cd /repo && /venv/bin/python -m pytest -ra -q -p no:cacheprovider --timeout=900 --continue-on-collection-errors",
            "source_commits": [],
            "add_only": True,
        },
        "engines": [{
            "name": "dsim",
            "path": "/verif/dsim",
            "serves_properties": sorted(CHECKS),
            "kind_free_text": "seeded deterministic simulator: heap of live praatio objects driven through recorded operation/fault histories, executable reference models, heap-wide frame condition, in-memory file-system seam (SimFS) with event trace and I/O fault injection; ddmin minimiser; replay files",
        }],
        "checks": checks,
        "not_applicable": na,
        "notes": "Exit codes: 0 held (KNOWN-FINDING lines allowed), 1 VIOLATION, 2 harness error (never read as held). VERIF_SEED selects the batch; VERIF_REPO (default /repo) selects the tree under test. See DESIGN.md.",
    }
    with open(os.path.join(HERE, "MANIFEST.json"), "w") as f:
        json.dump(m, f, indent=1)
        f.write("\n")

if __name__ == "__main__":
    main()
