#!/venv/bin/python
"""Sensitivity self-test (not a MANIFEST check): apply realistic breaking
changes one at a time to a scratch worktree of /repo (outside /repo and
/verif), run the pinned test suite on it, then the quick check of the owning
property with VERIF_REPO=<scratch>.  The worktree is removed afterwards.

    /venv/bin/python tools/mutants.py [--only C11] [--ids m11a,m11b] [--runs N]

Result table -> tools/mutants_result.json (and stdout).
"""
import argparse
import json
import os
import subprocess
import sys
import time

VERIF = os.path.dirname(os.path.dirname(os.path.abspath(__file__)))
WT = "/tmp/dsim_mutants_wt"

IT = "praatio/data_classes/interval_tier.py"
PT = "praatio/data_classes/point_tier.py"
TT = "praatio/data_classes/textgrid_tier.py"
TG = "praatio/data_classes/textgrid.py"
IO = "praatio/utilities/textgrid_io.py"
UT = "praatio/utilities/utils.py"
AU = "praatio/audio.py"

# (id, property, file, old, new, description)
M = [
    # ------------------------------------------------------------------ C05
    ("m05a", "C05", IT, "        self._validate()\n\n    def _validate(self):", "\n    def _validate(self):",
     "IntervalTier.__init__ no longer validates"),
    ("m05b", "C05", IT, "Interval(float(start), float(end), label.strip())", "Interval(float(start), float(end), label)",
     "interval constructor does not strip labels"),
    ("m05c", "C05", IT, "        if self._entries[-1][1] > self.maxTimestamp:\n            self.maxTimestamp = self._entries[-1][1]\n",
     "", "IntervalTier.insertEntry does not grow maxTimestamp"),
    ("m05d", "C05", IT, "        self.sort()\n\n        if self._entries[0][0] < self.minTimestamp:",
     "        if self._entries[0][0] < self.minTimestamp:", "IntervalTier.insertEntry does not re-sort"),
    ("m05e", "C05", IT, "    try:\n        resolvedMinT = min(minTimeList)\n        resolvedMaxT = max(maxTimeList)",
     "    try:\n        resolvedMinT = min(minTimeList) if minT is None else float(minT)\n        resolvedMaxT = max(maxTimeList) if maxT is None else float(maxT)",
     "given span overrides the hull of the entries"),
    ("m05f", "C05", IT, "if previousInterval and previousInterval.end > interval.start:",
     "if previousInterval and previousInterval.end >= interval.start:", "validate() rejects touching intervals"),
    ("m05g", "C05", TT, "        return type(self)(name, entries, minTimestamp, maxTimestamp)",
     "        ret = copy.copy(self)\n        ret.name = name\n        ret._entries = list(entries)\n        ret.minTimestamp = minTimestamp\n        ret.maxTimestamp = maxTimestamp\n        return ret",
     "new() bypasses the constructor"),
    ("m05h", "C05", PT, "        newPoint = Point(newPoint.time, newPoint.label.strip())\n", "",
     "revert of fix: PointTier.insertEntry keeps padded label"),
    ("m05i", "C05", PT, "        if self._entries[-1].time > self.maxTimestamp:\n            self.maxTimestamp = self._entries[-1].time\n", "",
     "revert of fix (half): PointTier.insertEntry does not grow maxTimestamp"),
    ("m05j", "C05", PT, "    processedEntries.sort()\n    return processedEntries", "    return processedEntries",
     "no sorting at all in the point constructor path (see EXTRA: base class sort removed too)"),
    # ------------------------------------------------------------------ C11
    ("m11a", "C11", IT, '"-".join([tmpInterval.label for tmpInterval in matchList]),',
     '"-".join([tmpInterval.label for tmpInterval in reversed(matchList)]),', "merge label reversed"),
    ("m11b", "C11", IT, '"-".join([tmpInterval.label for tmpInterval in matchList]),',
     '"+".join([tmpInterval.label for tmpInterval in matchList]),', "merge label other delimiter"),
    ("m11c", "C11", IT, "        elif collisionMode == constants.IntervalCollision.REPLACE:\n            for matchEntry in matchList:",
     "        elif collisionMode == constants.IntervalCollision.REPLACE:\n            for matchEntry in matchList[:1]:",
     "replace removes only the first collider"),
    ("m11d", "C11", UT, "        if interval.end <= start or interval.start >= end:\n            continue",
     "        if interval.end < start or interval.start > end:\n            continue", "touching counts as overlap"),
    ("m11e", "C11", PT, '"-".join([oldPoint.label for oldPoint in matchList] + [newPoint.label]),',
     '"-".join([newPoint.label] + [oldPoint.label for oldPoint in matchList]),', "point merge new-old"),
    ("m11f", "C11", IT, "        self._entries.pop(self._entries.index(entry))",
     "        self._entries.pop([e.label for e in self._entries].index(entry.label))", "deleteEntry by label only"),
    ("m11g", "C11", IT,
     "        if len(matchList) == 0:\n            self._entries.append(interval)\n\n        elif collisionMode == constants.IntervalCollision.REPLACE:",
     "        if len(matchList) == 0:\n            self._entries.append(interval)\n\n        elif collisionMode == constants.IntervalCollision.ERROR:\n            for matchEntry in matchList:\n                self.deleteEntry(matchEntry)\n            raise errors.CollisionError('collision')\n\n        elif collisionMode == constants.IntervalCollision.REPLACE:",
     "error mode deletes the colliders before raising"),
    ("m11h", "C11", IT, "        if self._entries[0][0] < self.minTimestamp:\n            self.minTimestamp = self._entries[0][0]\n", "",
     "IntervalTier.insertEntry does not lower minTimestamp"),
    ("m11i", "C11", PT, "            for matchEntry in matchList:\n                self.deleteEntry(matchEntry)\n            self._entries.append(newPoint)",
     "            self._entries.append(newPoint)", "point replace keeps the old point(s)"),
    ("m11j", "C11", PT, "if point.time == newPoint.time]", "if abs(point.time - newPoint.time) < 0.2]",
     "points within 0.2 collide"),
    ("m11l", "C11", PT, "        matchList = [point for point in self.entries if point.time == newPoint.time]",
     "        matchList = [point for point in self.entries if point.time == newPoint.time][:1]",
     "revert of fix: only the first of several same-time points collides"),
    ("m11k", "C11", IT, "                max([tmpInterval.end for tmpInterval in matchList]),",
     "                matchList[-1].end,", "merge takes the end of the last-starting interval"),
    # ------------------------------------------------------------------ C12
    ("m12a", "C12", TG, "        if tierIndex is None:\n            self._tierDict[tier.name] = tier",
     "        if True:\n            self._tierDict[tier.name] = tier", "addTier ignores tierIndex"),
    ("m12b", "C12", TG, "newOrderedTierNameList.insert(tierIndex, tier.name)",
     "newOrderedTierNameList.insert(tierIndex + 1, tier.name)", "addTier index off by one"),
    ("m12c", "C12", TG, "self.addTier(oldTier.new(newName, oldTier.entries), tierIndex)",
     "self.addTier(oldTier.new(newName, oldTier.entries))", "rename re-inserts at the end"),
    ("m12d", "C12", TG, "        if self.maxTimestamp is None or maxV > self.maxTimestamp:\n            self.maxTimestamp = maxV",
     "        self.maxTimestamp = maxV", "span assigned instead of widened"),
    ("m12e", "C12", TG, "            newTier = tier.crop(cropStart, cropEnd, mode, rebaseToZero)\n",
     "            if isinstance(tier, point_tier.PointTier):\n                continue\n            newTier = tier.crop(cropStart, cropEnd, mode, rebaseToZero)\n",
     "Textgrid.crop drops point tiers"),
    ("m12f", "C12", TG, "            newTier = tier.crop(cropStart, cropEnd, mode, rebaseToZero)\n",
     "            newTier = tier.crop(cropStart, cropEnd, constants.CropCollision.TRUNCATED, rebaseToZero)\n",
     "Textgrid.crop always truncates"),
    ("m12g", "C12", TG, "        newTG.maxTimestamp = maxTimestamp\n\n        return newTG", "        return newTG",
     "Textgrid.eraseRegion forgets its own maxTimestamp"),
    ("m12h", "C12", TG, "            newTier = tier.insertSpace(start, duration, collisionMode)",
     "            newTier = tier.insertSpace(start, duration, constants.WhitespaceCollision.STRETCH)",
     "Textgrid.insertSpace passes a fixed collision mode"),
    ("m12i", "C12", TG,
     "        if preserveOtherTiers:\n            for tier in self.tiers:\n                if tier.name not in tierNames:\n                    tg.addTier(tier)\n\n        if intervalTier is not None:\n            tg.addTier(intervalTier)\n\n        if pointTier is not None:\n            tg.addTier(pointTier)\n",
     "        if intervalTier is not None:\n            tg.addTier(intervalTier)\n\n        if pointTier is not None:\n            tg.addTier(pointTier)\n\n        if preserveOtherTiers:\n            for tier in self.tiers:\n                if tier.name not in tierNames:\n                    tg.addTier(tier)\n",
     "mergeTiers puts merged tiers first"),
    ("m12j", "C12", TG, "        if tier.name in self.tierNames:\n            raise errors.TierNameExistsError(\"Tier name already in tier\")\n\n        # Report",
     "        # Report", "addTier accepts duplicate names (overwrites)"),
    ("m12k", "C12", TG, "            if len(tier.entries) > 0:\n                tier = tier.editTimestamps(offset, reportingMode)",
     "            if len(tier.entries) > 1:\n                tier = tier.editTimestamps(offset, reportingMode)",
     "Textgrid.editTimestamps skips single-entry tiers"),
    ("m12l", "C12", TG, "        if newName != oldName and newName in self.tierNames:\n            raise errors.TierNameExistsError(\"Tier name already in tier\")\n", "",
     "revert of fix: renameTier clash loses the tier"),
    # ------------------------------------------------------------------ C13
    ("m13a", "C13", TT, "        retTier = self.new()\n\n        for entry in tier.entries:\n            retTier.insertEntry(",
     "        retTier = self\n\n        for entry in tier.entries:\n            retTier.insertEntry(", "union works on self"),
    ("m13b", "C13", IT, "        matchList = self.crop(start, end, CropCollision.LAX, False).entries\n        newTier = self.new()",
     "        matchList = self.crop(start, end, CropCollision.LAX, False).entries\n        newTier = self", "IntervalTier.eraseRegion works on self"),
    ("m13c", "C13", TT, "        entries = self._entries + appendTier._entries\n", "        entries = self._entries\n        entries += appendTier._entries\n",
     "appendTier extends the receiver's entry list"),
    ("m13d", "C13", TG, "        return copy.deepcopy(self)", "        return copy.copy(self)", "Textgrid.new is shallow"),
    ("m13e", "C13", TG,
     "        self.validate(reportingMode)\n\n        tgAsDict = _tgToDictionary(self)\n\n        textgridStr = textgrid_io.getTextgridAsStr(\n            tgAsDict,\n            format,\n            includeBlankSpaces,\n            minTimestamp,\n            maxTimestamp,\n            minimumIntervalLength,\n        )\n\n        with io.open(fn, \"w\", encoding=\"utf-8\") as fd:\n            fd.write(textgridStr)",
     "        self.validate(reportingMode)\n\n        tgAsDict = _tgToDictionary(self)\n\n        with io.open(fn, \"w\", encoding=\"utf-8\") as fd:\n            textgridStr = textgrid_io.getTextgridAsStr(\n                tgAsDict,\n                format,\n                includeBlankSpaces,\n                minTimestamp,\n                maxTimestamp,\n                minimumIntervalLength,\n            )\n            fd.write(textgridStr)",
     "save opens (truncates) the file before serialising"),
    ("m13f", "C13", TG, '            "entries": tier.entries,', '            "entries": tier._entries,',
     "_tgToDictionary hands out the live entry list (with in-place sort below)"),
    ("m13g", "C13", TG, "        originalTierDict = self._tierDict.copy()\n        self.removeTier(name)\n        try:\n            self.addTier(newTier, tierIndex, reportingMode)\n        except Exception:\n            # Put the old tier back; a failed replace must not lose it\n            self._tierDict = originalTierDict\n            raise\n",
     "        self.removeTier(name)\n        self.addTier(newTier, tierIndex, reportingMode)\n", "revert of fix: replaceTier loses the tier on failure"),
    ("m13h", "C13", PT, "        newTier = self.new()\n        croppedTier = newTier.crop(", "        newTier = self\n        croppedTier = newTier.crop(",
     "PointTier.eraseRegion works on self"),
    ("m13i", "C13", TG, "                appendTier = appendTier.new(minTimestamp=minTime, maxTimestamp=maxTime)\n",
     "                appendTier.minTimestamp = minTime\n                appendTier.maxTimestamp = maxTime\n",
     "appendTextgrid rewrites the argument's tier spans in place"),
    ("m13j", "C13", IT, "        retTier = self.new()\n\n        for entry in tier.entries:\n            retTier = retTier.eraseRegion(",
     "        retTier = self\n        for entry in tier.entries[:1]:\n            retTier.deleteEntry(entry) if entry in retTier._entries else None\n        for entry in tier.entries:\n            retTier = retTier.eraseRegion(",
     "difference deletes identical entries from the receiver first"),
    ("m13k", "C13", TG, "        utils.validateOption(\"format\", format, TextgridFormats)\n        utils.validateOption(\n            \"reportingMode\", reportingMode, constants.ErrorReportingMode\n        )\n\n        self.validate(reportingMode)",
     "        io.open(fn, \"a\").close()\n        utils.validateOption(\"format\", format, TextgridFormats)\n        utils.validateOption(\n            \"reportingMode\", reportingMode, constants.ErrorReportingMode\n        )\n\n        self.validate(reportingMode)",
     "save touches (opens for append) the destination before validating"),
    ("m13l", "C13", TG, "        if tierNames is None:\n            tierNames = self.tierNames\n",
     "        if tierNames is None:\n            tierNames = self.tierNames\n        else:\n            tierNames.sort()\n",
     "mergeTiers sorts the caller's name list in place"),
    ("m13m", "C13", IT, "            raise errors.CollisionError(\n                \"Attempted to insert interval \"",
     "            self._hadCollision = True\n            raise errors.CollisionError(\n                \"Attempted to insert interval \"",
     "hidden state: a rejected insert sets a flag that makes a later difference() drop the first entry (see EXTRA)"),
    # ------------------------------------------------------------------ C16
    ("m16a", "C16", AU, "return round(startTime * self.frameRate) * self.sampleWidth",
     "return int(startTime * self.frameRate) * self.sampleWidth", "floor instead of round"),
    ("m16b", "C16", AU, "        self.frames = self.frames[:i] + self.frames[j:]",
     "        self.frames = self.frames[:i] + self.frames[j + self.sampleWidth :]", "deleteSegment removes one sample too many"),
    ("m16c", "C16", AU, "return len(self.frames) / self.frameRate / self.sampleWidth", "return len(self.frames) / self.frameRate",
     "duration without the width division"),
    ("m16d", "C16", AU, "    def save(self, outputFN: str) -> None:\n        outWave = wave.open(outputFN, \"w\")\n        outWave.setparams(\n            [\n                self.nchannels,\n                self.sampleWidth,",
     "    def save(self, outputFN: str) -> None:\n        outWave = wave.open(outputFN, \"w\")\n        outWave.setparams(\n            [\n                self.nchannels,\n                2,",
     "Wav.save always writes width 2"),
    ("m16e", "C16", AU, "    audiofile.setpos(round(frameRate * startTime))\n", "", "readFramesAtTime without setpos"),
    ("m16f", "C16", AU, 'audioFrameList = struct.unpack("<" + byteCode * actualNumFrames, byteStr)',
     'audioFrameList = struct.unpack(">" + byteCode * actualNumFrames, byteStr)', "big-endian unpack"),
    ("m16g", "C16", AU, 'sampleWidthDict: Final = {1: "b", 2: "h", 4: "i", 8: "q"}', 'sampleWidthDict: Final = {1: "b", 2: "h", 4: "I", 8: "q"}',
     "unsigned code for width 4"),
    ("m16h", "C16", AU, "return round(startTime * self.frameRate) * self.sampleWidth",
     "return round(startTime * self.frameRate * self.sampleWidth)", "revert of fix: byte rounding"),
    ("m16i", "C16", AU, "        self.deleteSegment(startTime, endTime)\n        self.insert(startTime, frames)",
     "        self.deleteSegment(startTime, endTime)\n        self.insert(endTime, frames)", "replaceSegment inserts at the old end time"),
    ("m16j", "C16", AU, "        frames = self.getFrames(startTime, endTime)\n        return Wav(frames, self.params)",
     "        self.frames = self.getFrames(startTime, endTime)\n        return self", "getSubwav crops in place"),
    ("m16k", "C16", AU, "    frames = audiofile.readframes(round(frameRate * (endTime - startTime)))",
     "    frames = audiofile.readframes(int(frameRate * (endTime - startTime)))", "readFramesAtTime floors the length"),
    ("m16l", "C16", AU, "        return copy.deepcopy(self)", "        return self", "Wav.new returns self"),
]

EXTRA = {
    "m13m": [(IT, "        retTier = self.new()\n\n        for entry in tier.entries:\n            retTier = retTier.eraseRegion(",
              "        retTier = self.new()\n        if getattr(self, \"_hadCollision\", False) and len(retTier._entries) > 1:\n            retTier._entries.pop(0)\n\n        for entry in tier.entries:\n            retTier = retTier.eraseRegion(")],
    "m05j": [(TT, "        entries.sort()\n\n        self.name = name", "        self.name = name")],
    # m13f needs the in-place sort as a second site
    "m13f": [(IO, '        tier["entries"] = sorted(tier["entries"])', '        tier["entries"].sort()')],
}

RUNS = {"C05": 20000, "C11": 20000, "C12": 20000, "C13": 1500, "C16": 20000}


def sh(cmd, **kw):
    return subprocess.run(cmd, shell=True, capture_output=True, text=True, **kw)


def main():
    ap = argparse.ArgumentParser()
    ap.add_argument("--only")
    ap.add_argument("--ids")
    ap.add_argument("--runs", type=int)
    ap.add_argument("--no-suite", action="store_true")
    args = ap.parse_args()
    sel = [m for m in M if (not args.only or m[1] == args.only) and (not args.ids or m[0] in args.ids.split(","))]
    sh(f"git -C /repo worktree remove --force {WT}")
    r = sh(f"git -C /repo worktree add --detach {WT} HEAD")
    if r.returncode:
        print(r.stderr)
        return 2
    results = []
    try:
        for mid, prop, path, old, new, desc in sel:
            sh(f"git -C {WT} checkout -- .")
            edits = [(path, old, new)] + EXTRA.get(mid, [])
            ok = True
            for p, o, n in edits:
                fp = os.path.join(WT, p)
                src = open(fp).read()
                if src.count(o) != 1:
                    print(f"{mid}: anchor occurs {src.count(o)}x in {p} -- mutant not applied")
                    ok = False
                    break
                open(fp, "w").write(src.replace(o, n))
            if not ok:
                results.append({"id": mid, "property": prop, "desc": desc, "status": "not-applied"})
                continue
            suite = "skipped"
            if not args.no_suite:
                t = sh(f"cd {WT} && timeout 900 /venv/bin/python -m pytest -q -x -p no:cacheprovider 2>&1 | tail -1")
                suite = "passes" if " passed" in t.stdout and "failed" not in t.stdout else "FAILS: " + t.stdout.strip()[-80:]
            t0 = time.time()
            env = dict(os.environ, VERIF_REPO=WT, VERIF_EVIDENCE_DIR="/tmp/dsim_mutants_out",
                       VERIF_REPLAY_DIR="/tmp/dsim_mutants_out")
            runs = args.runs or RUNS[prop]
            c = subprocess.run([os.path.join(VERIF, "check"), "run", prop, "--tier", "quick", "--runs", str(runs)],
                               capture_output=True, text=True, env=env, cwd=VERIF)
            sigs = [l.split("signature=")[1].split()[0] for l in c.stdout.splitlines() if "signature=" in l and "KNOWN" not in l]
            status = {0: "MISSED", 1: "caught", 2: "harness-error"}.get(c.returncode, f"rc={c.returncode}")
            results.append({"id": mid, "property": prop, "desc": desc, "suite": suite, "status": status,
                            "signatures": sigs[:4], "wall_s": round(time.time() - t0, 1)})
            print(f"{mid} {prop} {status:7s} suite={suite[:12]:12s} {desc}  {sigs[:2]}")
            if c.returncode == 2:
                print(c.stderr[-1500:])
            # replay files written for mutants are not findings on the real tree
            for l in c.stdout.splitlines():
                if l.startswith("VIOLATION") and "replay=" in l:
                    try:
                        os.remove(l.split("replay=")[1].strip())
                    except OSError:
                        pass
    finally:
        sh(f"git -C /repo worktree remove --force {WT}")
        sh("rm -rf /tmp/dsim_mutants_out")
    out = os.path.join(VERIF, "tools", "mutants_result.json")
    if args.ids or args.only:  # partial run: merge into the existing table
        try:
            old = {r["id"]: r for r in json.load(open(out))}
        except Exception:
            old = {}
        old.update({r["id"]: r for r in results})
        order = [m[0] for m in M]
        merged = [old[i] for i in order if i in old]
    else:
        merged = results
    with open(out, "w") as f:
        json.dump(merged, f, indent=1)
    # the evidence files were rewritten against mutants: regenerate them against the real tree is the caller's job
    missed = [r for r in results if r["status"] == "MISSED"]
    print(f"\n{len(results)} mutants: {sum(r['status']=='caught' for r in results)} caught, {len(missed)} missed, "
          f"{sum(r['status'] not in ('caught','MISSED') for r in results)} other")
    return 0


if __name__ == "__main__":
    sys.exit(main())
