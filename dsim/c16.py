"""C16 -- in-memory audio edits are sample-exact and sample-aligned.

System: 1-3 live Wav objects (width 1/2/4, several rates, <= 400 samples incl.
the extremes of the value range), each with a list-of-ints model twin; SimFS for
save / Wav.open / QueryWav.  After every step the raw byte buffer must have
whole-sample length and decode (by the simulator's own little-endian decoder,
not praatio's) to the model; returned values must equal the model's.

Times are drawn on sample positions k/rate and off them (k+f)/rate with
f in +-[0.05, 0.45] -- never within 0.05 of a rounding tie (gray zone).
"""
import math
import sys

from .engine import Oracle, Violation
from .gen import H
from .models import WavModel
from .world import audio

PROP = "C16"

ASSUMPTIONS = [
    "mono PCM only (praatio rejects other channel counts)",
    "times lie in [0, duration], start <= end, and are never within 0.05 sample of a rounding tie",
    "for QueryWav with off-grid times only 'whole samples from the nearest start index, length within +-1' is required (the statement is not explicit about how the length is rounded)",
]

_LITTLE = sys.byteorder == "little"
RATES = [8, 16, 1000, 8000, 16000, 44100, 11025, 22050, 48000, 96000]


def config(rng, tier):
    cfg = _config(rng, tier)
    # 2**18 samples of 4 bytes = exactly 2**20 bytes: kept rare (it is 100x the usual recording)
    if cfg["nmax"] == 262144 and not (cfg["width"] == 4 and cfg.get("exact_n")):
        cfg["nmax"] = 4096
    return cfg


def _config(rng, tier):
    deep = tier == "thorough"
    return {
        "width": rng.choice([1, 2, 2, 4]),
        "rate": rng.choice(RATES),
        # size class: mostly the property's <= 400 samples, sometimes past typical buffer/chunk thresholds
        "nmax": rng.choice([0, 1, 2, 5, 16, 60, 400] * 6 + [1500, 4096, 5000, 8192, 16384, 70000, 262144]),
        "exact_n": rng.random() < 0.5,
        "offgrid": rng.random() < 0.6,
        "steps": rng.randrange(1, 13 if deep else 7) if rng.random() < 0.85 else rng.randrange(7, 16),
        "patterns": rng.random() < 0.15,
        "files": rng.random() < 0.6,
    }


def enc_samples(samples, width):
    return b"".join(int(s).to_bytes(width, "little", signed=True) for s in samples)


_CAST = {1: "b", 2: "h", 4: "i"}


def dec_samples(b, width):
    """independent little-endian decoder (no struct format strings): a typed
    memoryview on little-endian hosts, int.from_bytes otherwise / for odd tails"""
    b = bytes(b)
    if _LITTLE and width in _CAST and len(b) % width == 0:
        return memoryview(b).cast(_CAST[width]).tolist()
    return [int.from_bytes(b[i:i + width], "little", signed=True) for i in range(0, len(b), width)]


def params(width, rate, n):
    return [1, width, rate, n, "NONE", "not compressed"]


class C16Oracle(Oracle):
    name = "sample-model"

    def start(self, run):
        self.m = {}  # handle -> WavModel (Wav and QueryWav)
        self.pending = None

    def fail(self, op, cls, detail):
        raise Violation(PROP, self.name, op, cls, detail)

    def before(self, run, out):
        self.pending = None
        name = out.op.name
        h = out.step.get("recv")
        m = self.m.get(h)
        if m is None:
            return
        w = m.width
        a = out.args
        self.prev_samples = list(m.s) if out.step.get("tag") == "G-beyond-end" else None
        if name == "wav.insert":
            m.insert(a[0], dec_samples(a[1], w))
        elif name == "wav.deleteSegment":
            m.delete(a[0], a[1])
        elif name == "wav.replaceSegment":
            m.replace(a[0], a[1], dec_samples(a[2], w))
        elif name == "wav.concatenate":
            m.s.extend(dec_samples(a[0], w))

    def _check_buffer(self, run, out, wav, m, how):
        name = out.op.name
        fr = wav.frames
        if len(fr) % m.width != 0:
            self.fail(name, f"buffer-not-whole-samples/w{m.width}/{how}",
                      {"len_bytes": len(fr), "width": m.width, "args": repr(out.args)[:300]})
        got = dec_samples(fr, m.width)
        if got != m.s:
            i = next((k for k, (x, y) in enumerate(zip(got, m.s)) if x != y), min(len(got), len(m.s)))
            self.fail(name, f"samples-differ/w{m.width}/{how}",
                      {"first_diff_index": i, "len_real": len(got), "len_model": len(m.s),
                       "real": got[max(0, i - 2):i + 4], "model": m.s[max(0, i - 2):i + 4],
                       "args": repr(out.args)[:300]})
        try:
            theirs = list(audio.convertFromBytes(fr, m.width))
        except Exception as e:
            self.fail(name, f"convertFromBytes-raised/w{m.width}", {"exc": repr(e)})
        if theirs != m.s:
            self.fail(name, f"convertFromBytes-differs/w{m.width}", {"theirs": theirs[:8], "model": m.s[:8]})

    def _heap_wide(self, run, out):
        """every live Wav - not only the one operated on - still has its own samples, duration and
        parameters (objects built from another Wav's params must stay independent)"""
        for hh, m in self.m.items():
            o = run.world.heap.get(hh)
            if not isinstance(o, audio.Wav) or o is out.recv or o is out.result:
                continue
            if hh in getattr(self, "deferred", ()):
                continue
            if len(m.s) <= 2000 and dec_samples(o.frames, m.width) != m.s:
                self.fail(out.op.name, f"bystander-samples-changed/w{m.width}", {"handle": hh})
            if not math.isclose(o.duration, len(m.s) / m.rate, rel_tol=1e-12, abs_tol=0.0):
                self.fail(out.op.name, f"bystander-duration-changed/w{m.width}",
                          {"handle": hh, "real": o.duration, "model": len(m.s) / m.rate})
            if (o.nchannels, o.sampleWidth, o.frameRate) != (1, m.width, m.rate):
                self.fail(out.op.name, f"bystander-params-changed/w{m.width}", {"handle": hh})

    def after(self, run, out):
        self._after(run, out)
        if out.op.kind != "env":
            self._heap_wide(run, out)

    def _after(self, run, out):
        name = out.op.name
        step = out.step
        h = step.get("recv")
        how = "grid" if step.get("grid", True) else "offgrid"
        if name == "Wav":
            if not out.ok:
                self.fail(name, "ctor-raised", {"exc": repr(out.exc)})
            w, rate = out.args[1][1], out.args[1][2]
            m = WavModel(dec_samples(out.args[0], w), w, rate)
            self.m[step["out"]] = m
            self._check_buffer(run, out, out.result, m, how)
            return
        if name == "Wav.from":
            src = self.m.get(out.step["a"][0]["$h"])
            if src is None:
                return
            if not out.ok:
                self.fail(name, "ctor-raised", {"exc": repr(out.exc)})
            m = src.copy()
            self.m[step["out"]] = m
            self._check_buffer(run, out, out.result, m, how)
            return
        if name == "Wav.like":
            src = self.m.get(out.step["a"][1]["$h"])
            if src is None:
                return
            if not out.ok:
                self.fail(name, "ctor-raised", {"exc": repr(out.exc)})
            m = WavModel(dec_samples(out.args[0], src.width), src.width, src.rate)
            self.m[step["out"]] = m
            self._check_buffer(run, out, out.result, m, how)
            return
        if name.startswith("wav."):
            m = self.m.get(h)
            if m is None:
                return
            getattr(self, "deferred", set()).discard(h)
            if not out.ok and getattr(self, "prev_samples", None) is not None:
                # a time beyond the end of the recording: the statement only covers [0, duration], so
                # rejecting the call is as acceptable as clamping to the end - but then nothing may change
                m.s = self.prev_samples
                self._check_buffer(run, out, out.recv, m, "beyond-end-rejected")
                run.stats["c16:beyond_end:rejected"] += 1
                return
            if not out.ok:
                self.fail(name, f"raised-{type(out.exc).__name__}/w{m.width}/{how}",
                          {"exc": repr(out.exc), "args": repr(out.args)[:300]})
            if out.step.get("tag") == "G-beyond-end":
                how = "beyond-end"
                run.stats["c16:beyond_end:clamped"] += 1
            self._check_buffer(run, out, out.recv, m, how)
            r = out.result
            if name == "wav.getSamples":
                if list(r) != m.get(*out.args):
                    self.fail(name, f"return-differs/w{m.width}/{how}",
                              {"real": list(r)[:12], "model": m.get(*out.args)[:12], "args": out.args})
            elif name == "wav.getFrames":
                if bytes(r) != enc_samples(m.get(*out.args), m.width):
                    self.fail(name, f"return-differs/w{m.width}/{how}", {"args": out.args, "len": len(r)})
            elif name == "wav.duration":
                exp = len(m.s) / m.rate
                if not math.isclose(r, exp, rel_tol=1e-12, abs_tol=0.0):
                    self.fail(name, f"duration/w{m.width}", {"real": r, "model": exp})
            elif name in ("wav.getSubwav", "wav.new"):
                m2 = WavModel(m.get(*out.args) if name == "wav.getSubwav" else m.s, m.width, m.rate)
                if r is out.recv:
                    self.fail(name, "returned-self", {})
                self.m[step["out"]] = m2
                self._check_buffer(run, out, r, m2, how)
                if (r.nchannels, r.sampleWidth, r.frameRate) != (1, m.width, m.rate):
                    self.fail(name, "params-differ", {"real": (r.nchannels, r.sampleWidth, r.frameRate)})
            elif name == "wav.save":
                self.saved = getattr(self, "saved", {})
                self.saved[out.args[0]] = m.copy()
                if run.world.fs.open_handles != step.get("handles_before", run.world.fs.open_handles):
                    run.stats["probe:handle_left_open_after_save"] += 1
            return
        if name == "Wav.open":
            src = getattr(self, "saved", {}).get(out.args[0])
            if src is None:
                return
            if not out.ok:
                self.fail(name, f"raised-{type(out.exc).__name__}/w{src.width}", {"exc": repr(out.exc)})
            r = out.result
            self.m[step["out"]] = src.copy()
            if step.get("defer"):
                # do not look at the opened object yet: its first inspection happens at a later step, after
                # the file may have been rewritten (an object that loads lazily from the path would then differ)
                self.deferred = getattr(self, "deferred", set())
                self.deferred.add(step["out"])
                return
            self._check_buffer(run, out, r, src, "file")
            p = tuple(r.params)[:4]
            if p != (1, src.width, src.rate, len(src.s)) or \
                    (r.nchannels, r.sampleWidth, r.frameRate, r.nframes) != (1, src.width, src.rate, len(src.s)):
                self.fail(name, f"params-differ/w{src.width}",
                          {"real": repr(tuple(r.params)), "model": (1, src.width, src.rate, len(src.s))})
            return
        if name == "QueryWav":
            src = getattr(self, "saved", {}).get(out.args[0])
            if src is None:
                return
            if not out.ok:
                self.fail(name, f"raised-{type(out.exc).__name__}/w{src.width}", {"exc": repr(out.exc)})
            r = out.result
            self.m[step["out"]] = src.copy()
            if (r.nchannels, r.sampleWidth, r.frameRate, r.nframes) != (1, src.width, src.rate, len(src.s)):
                self.fail(name, f"params-differ/w{src.width}",
                          {"real": (r.nchannels, r.sampleWidth, r.frameRate, r.nframes)})
            return
        if name.startswith("qwav."):
            m = self.m.get(h)
            if m is None:
                return
            if not out.ok:
                self.fail(name, f"raised-{type(out.exc).__name__}/w{m.width}/{how}",
                          {"exc": repr(out.exc), "args": out.args})
            r = out.result
            if name == "qwav.duration":
                if not math.isclose(r, len(m.s) / m.rate, rel_tol=1e-12):
                    self.fail(name, f"duration/w{m.width}", {"real": r, "model": len(m.s) / m.rate})
                return
            a = list(out.args) + [None, None]
            t0 = 0 if a[0] is None else a[0]
            t1 = len(m.s) / m.rate if a[1] is None else a[1]
            got = list(r) if name == "qwav.getSamples" else dec_samples(bytes(r), m.width)
            if name == "qwav.getFrames" and len(r) % m.width:
                self.fail(name, f"buffer-not-whole-samples/w{m.width}/{how}", {"len": len(r)})
            i, j = m.idx(t0), m.idx(t1)
            n = len(m.s)
            if how == "grid":
                if got != m.s[i:j]:
                    self.fail(name, f"return-differs/w{m.width}/{how}",
                              {"real": got[:12], "model": m.s[i:j][:12], "args": out.args, "len_real": len(got),
                               "len_model": j - i})
            else:
                okl = {min(max(L, 0), n - i) for L in (j - i - 1, j - i, j - i + 1)}
                if len(got) not in okl or got != m.s[i:i + len(got)]:
                    self.fail(name, f"return-differs/w{m.width}/{how}",
                              {"real": got[:12], "model_from_start": m.s[i:i + len(got)][:12],
                               "len_real": len(got), "acceptable_lengths": sorted(okl), "args": out.args})
            return
        if name == "audio.convertToBytes":
            samples, width = out.args
            if not out.ok:
                self.fail(name, f"raised-{type(out.exc).__name__}/w{width}", {"exc": repr(out.exc), "samples": samples[:8]})
            if bytes(out.result) != enc_samples(samples, width):
                got = dec_samples(bytes(out.result), width) if len(out.result) % width == 0 else None
                self.fail(name, f"bytes-differ/w{width}", {"samples": samples[:12], "decoded_result": (got or [])[:12]})
            back = list(audio.convertFromBytes(out.result, width))
            if back != list(samples):
                self.fail(name, f"roundtrip-not-identity/w{width}", {"samples": samples[:12], "back": back[:12]})
            return
        if name == "audio.convertFromBytes":
            b, width = out.args
            if not out.ok:
                self.fail(name, f"raised-{type(out.exc).__name__}/w{width}", {"exc": repr(out.exc)})
            if list(out.result) != dec_samples(b, width):
                self.fail(name, f"samples-differ/w{width}", {"real": list(out.result)[:12], "model": dec_samples(b, width)[:12]})
            if audio.convertToBytes(tuple(out.result), width) != b:
                self.fail(name, f"roundtrip-not-identity/w{width}", {})
            return
        if name == "audio.getDuration":
            src = getattr(self, "saved", {}).get(out.args[0])
            if src is not None:
                if not out.ok or not math.isclose(out.result, len(src.s) / src.rate, rel_tol=1e-12):
                    self.fail(name, "duration", {"real": repr(out.result), "exc": repr(out.exc)})


def oracles(cfg):
    return [C16Oracle()]


_MAGIC = b"RIFF\x24\x00\x00\x00WAVEfmt \x10\x00\x00\x00data\x00\x00\x00\x00LIST"


def _samples(rng, width, n, patterns=False):
    lo, hi = -(2 ** (8 * width - 1)), 2 ** (8 * width - 1) - 1
    if patterns and n >= 8 and rng.random() < 0.5:
        # audio whose bytes look like RIFF chunk headers
        raw = (_MAGIC * (n * width // len(_MAGIC) + 1))[rng.randrange(0, 4):][: n * width]
        return dec_samples(raw, width)
    kind = rng.random()
    out = []
    for _ in range(n):
        r = rng.random()
        if r < 0.08:
            out.append(lo)
        elif r < 0.16:
            out.append(hi)
        elif r < 0.24:
            out.append(rng.choice([0, -1, 1]))
        elif kind < 0.3:
            out.append(rng.randrange(-128, 128))
        else:
            out.append(rng.randrange(lo, hi + 1))
    return out


def generate(run, rng):
    cfg = run.cfg
    w = run.world
    width, rate = cfg["width"], cfg["rate"]
    orc = run.oracles[0]

    def mk_wav():
        n = rng.randrange(0, cfg["nmax"] + 1)
        if cfg.get("exact_n") and cfg["nmax"] >= 1500:
            n = cfg["nmax"]  # lengths that are exact multiples of typical block sizes
        s = _samples(rng, width, n, cfg.get("patterns", False))
        h = w.new_handle()
        run.do({"op": "Wav", "a": [{"$b": enc_samples(s, width).hex()}, params(width, rate, n)], "out": h})
        return h

    def t_at(n, k=None, force_grid=False):
        """a time addressing sample boundary k of a recording with n samples"""
        if k is None:
            k = rng.randrange(0, n + 1)
        if force_grid or not cfg["offgrid"] or rng.random() < 0.3:
            t = k / rate
            if t.is_integer() and rng.random() < 0.3:
                t = int(t)  # callers pass whole seconds as ints
            return t, True
        # usually 5-45 % of a sample off; sometimes a hair away from a rounding tie (never ON it:
        # the float error of t*rate is < 1e-11 for these sizes, so 1e-8 is a safe distance)
        near_tie = 0.5 - rng.choice([1e-6, 1e-7, 1e-8] if n <= 20000 else ([1e-6] if n <= 70000 else [1e-4]))
        f = rng.choice([-1, 1]) * (rng.uniform(0.05, 0.45) if rng.random() < 0.85 else near_tie)
        if k == 0:
            f = abs(f)
        if k == n:
            f = -abs(f)
        if n == 0:
            return 0.0, True
        return (k + f) / rate, False

    def span(n):
        i = rng.randrange(0, n + 1)
        j = rng.randrange(i, n + 1)
        if rng.random() < 0.15:
            j = i
        a, ga = t_at(n, i)
        b, gb = t_at(n, j)
        if b < a:
            b = a
        return a, b, ga and gb

    def beyond(n):
        """an end time a few samples past the end of the recording (annotations often overrun the audio)"""
        return (n + rng.randrange(1, 6) + rng.choice([0.0, 0.25])) / rate

    def frames(maxn=12, like=None):
        k = rng.randrange(0, maxn + 1)
        if like is not None and rng.random() < 0.12:
            # frames that repeat what the recording already holds (its tail, its head or a stretch of it):
            # value coincidences between the new frames and their surroundings
            cur = orc.m[like].s
            if cur and k:
                k = min(k, len(cur))
                at = rng.choice([len(cur) - k, 0, rng.randrange(0, len(cur) - k + 1)])
                return {"$b": enc_samples(list(cur[at:at + k]), width).hex()}
        return {"$b": enc_samples(_samples(rng, width, k), width).hex()}

    h0 = mk_wav()
    if rng.random() < 0.3:
        if rng.random() < 0.5:
            mk_wav()
        else:
            n2 = rng.randrange(0, min(cfg["nmax"], 400) + 1)
            run.do({"op": "Wav.like", "a": [{"$b": enc_samples(_samples(rng, width, n2), width).hex()}, H(h0)],
                    "out": w.new_handle()})
    fileno = 0
    for _ in range(cfg["steps"]):
        wavs = w.live(audio.Wav)
        h = rng.choice(wavs)
        n = len(orc.m[h].s)
        r = rng.random()
        if r < 0.16:
            t, g = t_at(n)
            tag = None
            if rng.random() < 0.05:
                t, tag = beyond(n), "G-beyond-end"
            run.do({"op": "wav.insert", "recv": h, "a": [t, frames(like=h)], "grid": g, "tag": tag})
        elif r < 0.32:
            a, b, g = span(n)
            tag = None
            if rng.random() < 0.07:
                b, tag = beyond(n), "G-beyond-end"
            run.do({"op": "wav.deleteSegment", "recv": h, "a": [a, b], "grid": g, "tag": tag})
        elif r < 0.44:
            a, b, g = span(n)
            tag = None
            if rng.random() < 0.1:
                b, tag = beyond(n), "G-beyond-end"
            run.do({"op": "wav.replaceSegment", "recv": h, "a": [a, b, frames(like=h)], "grid": g, "tag": tag})
        elif r < 0.5:
            run.do({"op": "wav.concatenate", "recv": h, "a": [frames(like=h)]})
        elif r < 0.58:
            # insert then delete the same stretch: must restore the original
            k = rng.randrange(0, n + 1)
            t, g = t_at(n, k)
            fr = frames()
            m = len(fr["$b"]) // (2 * width)
            run.do({"op": "wav.insert", "recv": h, "a": [t, fr], "grid": g})
            t2 = t + m / rate if not g else (k + m) / rate
            before = list(orc.m[h].s)
            run.do({"op": "wav.deleteSegment", "recv": h, "a": [t, t2], "grid": g, "tag": "E-insert-then-delete"})
            run.stats["probe:insert_then_delete"] += 1
        elif r < 0.66:
            a, b, g = span(n)
            run.do({"op": "wav.getSubwav", "recv": h, "a": [a, b], "out": w.new_handle(), "grid": g})
        elif r < 0.74:
            a, b, g = span(n)
            run.do({"op": rng.choice(["wav.getSamples", "wav.getFrames"]), "recv": h, "a": [a, b], "grid": g})
        elif r < 0.755:
            run.do({"op": "wav.duration", "recv": h})
        elif r < 0.785:
            # read, change some samples WITHOUT changing the length, read again
            a, b, g = span(n)
            ia, ib = orc.m[h].idx(a), orc.m[h].idx(b)
            same_len = {"$b": enc_samples(_samples(rng, width, ib - ia), width).hex()}
            dur = n / rate
            run.do({"op": "wav.getSamples", "recv": h, "a": [0.0, dur]})
            run.do({"op": "wav.replaceSegment", "recv": h, "a": [a, b, same_len], "grid": g,
                    "tag": "E-same-length-replace"})
            run.do({"op": rng.choice(["wav.getSamples", "wav.getFrames"]), "recv": h, "a": [0.0, dur]})
        elif r < 0.80:
            run.do({"op": "wav.new", "recv": h, "out": w.new_handle()})
        elif r < 0.82:
            run.do({"op": "Wav.from", "a": [H(h)], "out": w.new_handle()})
        elif r < 0.86:
            smp = _samples(rng, width, rng.randrange(0, 13))
            if rng.random() < 0.5:
                run.do({"op": "audio.convertToBytes", "a": [smp, width]})
            else:
                run.do({"op": "audio.convertFromBytes", "a": [{"$b": enc_samples(smp, width).hex()}, width]})
        elif cfg["files"]:
            fileno += 1
            path = f"/simfs/c16_{fileno if rng.random() < 0.7 else 1}.wav"
            tag = None
            if rng.random() < 0.4:
                # destination pre-exists and is longer than what will be written
                junk = rng.randbytes(44 + 2 * (n + 20) * width)
                run.do({"op": "env.put", "a": [path, {"$b": junk.hex()}]})
                tag = "E-overwrite"
            run.do({"op": "wav.save", "recv": h, "a": [path], "tag": tag,
                    "handles_before": w.fs.open_handles})
            k = rng.random()
            if k < 0.12:
                # A -> p, (open p, not looked at yet), same-length B -> p, A -> p again, then read p back:
                # the file must hold what was saved LAST, and the object opened earlier what was there THEN
                xh = w.new_handle()
                run.do({"op": "Wav.open", "a": [path], "out": xh, "defer": True})
                bh = w.new_handle()
                run.do({"op": "Wav.like", "a": [{"$b": enc_samples(_samples(rng, width, n), width).hex()}, H(h)],
                        "out": bh})
                run.do({"op": "wav.save", "recv": bh, "a": [path], "handles_before": w.fs.open_handles})
                run.do({"op": "wav.getSamples", "recv": xh, "a": [0.0, n / rate]})
                if rng.random() < 0.6:
                    run.do({"op": "wav.save", "recv": h, "a": [path], "handles_before": w.fs.open_handles})
                run.do({"op": "Wav.open", "a": [path], "out": w.new_handle()})
                run.stats["probe:save_A_B_A_same_path"] += 1
            elif k < 0.45:
                run.do({"op": "Wav.open", "a": [path], "out": w.new_handle()})
            elif k < 0.9:
                q = w.new_handle()
                run.do({"op": "QueryWav", "a": [path], "out": q})
                run.do({"op": "qwav.duration", "recv": q})
                prev_end = None
                for _ in range(rng.randrange(1, 7)):
                    k2 = rng.random()
                    if k2 < 0.25:
                        run.do({"op": "qwav.getFrames", "recv": q, "a": []})  # whole file, no arguments
                        continue
                    a, b, g = span(n)
                    if prev_end is not None and k2 < 0.6 and prev_end[0] <= b:
                        a, g = prev_end[0], g and prev_end[1]  # read on from where the last read stopped
                    run.do({"op": rng.choice(["qwav.getSamples", "qwav.getSamples", "qwav.getFrames"]),
                            "recv": q, "a": [a, b], "grid": g})
                    prev_end = (b, g)
                run.do({"op": "env.drop", "a": [q]})
            else:
                run.do({"op": "audio.getDuration", "a": [path]})
        live = w.live(audio.Wav)
        if len(live) > 3:
            run.do({"op": "env.drop", "a": live[:len(live) - 3]})


def nontrivial(run):
    # at least one edit that changed a non-empty buffer, or a file round trip
    st = run.stats
    edits = sum(v for k, v in st.items() if k.startswith("op:wav.") and k.endswith(":ok")
                and k.split(":")[1] in ("wav.insert", "wav.deleteSegment", "wav.replaceSegment", "wav.concatenate"))
    files = st.get("op:Wav.open:ok", 0) + st.get("op:QueryWav:ok", 0)
    return edits + files >= 2
