"""SimFS -- the file-system seam owned by the simulator.

praatio reaches the file system only through module attributes looked up at
call time: ``io.open`` (text files), ``builtins.open`` (via ``wave.open``),
``os.path.exists`` / ``os.mkdir``.  ``install()`` replaces those attributes once
per process with dispatchers that route every path under ``/simfs/`` to the
*current* SimFS instance and everything else to the real implementation.

Only the raw byte layer is simulated (``SimRaw``); the real ``io.Buffered*`` /
``io.TextIOWrapper`` / ``codecs`` / ``wave`` stack runs on top of it, so
buffering, encoding, newline translation, header patching in ``wave`` etc. are
the real thing.

Every raw operation is appended to ``events`` as a tuple -- that is what lets an
oracle say "the destination was never opened for writing during this failed
save" instead of merely "the bytes are the same afterwards".

Fault injection (used for *observations* only, see DESIGN.md s6):
  fs.fault = ("enospc", k)   writes succeed for k more bytes, then ENOSPC
  fs.fault = ("eio_read", k) reads succeed for k more bytes, then EIO
  fs.fault = ("eacces", None) next open() fails with EACCES
A fault is disarmed when it fires (one fault per arming).
"""
import builtins
import errno
import io
import os

PREFIX = "/simfs/"

_real_open = builtins.open
_real_exists = os.path.exists
_real_mkdir = os.mkdir
_real_isdir = os.path.isdir
_real_stat = os.stat
_real_lstat = os.lstat
_real_remove = os.remove
_real_unlink = os.unlink
_real_rename = os.rename
_real_replace = os.replace
_real_listdir = os.listdir
_real_rmdir = os.rmdir

_current = None  # the SimFS instance of the run in progress
_installed = False


class SimRaw(io.RawIOBase):
    def __init__(self, fs, path, readable, writable, append):
        super().__init__()
        self._fs = fs
        self._path = path
        self._r = readable
        self._w = writable
        self._append = append
        self._pos = 0
        self.name = path
        self.mode = "rb+" if (readable and writable) else ("wb" if writable else "rb")

    # -- capabilities
    def readable(self):
        return self._r

    def writable(self):
        return self._w

    def seekable(self):
        return True

    def _data(self):
        return self._fs.files[self._path]

    # -- i/o
    def readinto(self, b):
        if self.closed:
            raise ValueError("I/O operation on closed file")
        if not self._r:
            raise io.UnsupportedOperation("not readable")
        fs = self._fs
        data = self._data()
        n = max(0, min(len(b), len(data) - self._pos))
        if fs.fault and fs.fault[0] == "eio_read":
            budget = fs.fault[1]
            if n > budget:
                fs.fault = None
                fs.fired("eio_read")
                fs.events.append(("read_fault", self._path, self._pos))
                raise OSError(errno.EIO, "simulated I/O error", self._path)
            fs.fault = ("eio_read", budget - n)
        b[:n] = data[self._pos:self._pos + n]
        fs.events.append(("read", self._path, self._pos, n))
        self._pos += n
        return n

    def write(self, b):
        if self.closed:
            raise ValueError("I/O operation on closed file")
        if not self._w:
            raise io.UnsupportedOperation("not writable")
        fs = self._fs
        b = bytes(b)
        n = len(b)
        data = self._data()
        if self._append:
            self._pos = len(data)
        if fs.fault and fs.fault[0] == "enospc":
            budget = fs.fault[1]
            if n > budget:
                # short write of what still fits, error on the next call
                if budget > 0:
                    n = budget
                    b = b[:n]
                    fs.fault = ("enospc", 0)
                else:
                    fs.fault = None
                    fs.fired("enospc")
                    fs.events.append(("write_fault", self._path, self._pos))
                    raise OSError(errno.ENOSPC, "simulated: no space left on device", self._path)
            else:
                fs.fault = ("enospc", budget - n)
        if self._pos > len(data):
            data.extend(b"\0" * (self._pos - len(data)))
        data[self._pos:self._pos + n] = b
        fs.events.append(("write", self._path, self._pos, n))
        self._pos += n
        return n

    def seek(self, offset, whence=0):
        if self.closed:
            raise ValueError("I/O operation on closed file")
        if whence == 0:
            p = offset
        elif whence == 1:
            p = self._pos + offset
        elif whence == 2:
            p = len(self._data()) + offset
        else:
            raise ValueError("bad whence")
        if p < 0:
            raise OSError(errno.EINVAL, "negative seek position")
        self._pos = p
        return p

    def tell(self):
        if self.closed:
            raise ValueError("I/O operation on closed file")
        return self._pos

    def truncate(self, size=None):
        if not self._w:
            raise io.UnsupportedOperation("not writable")
        if size is None:
            size = self._pos
        data = self._data()
        if size < len(data):
            del data[size:]
        else:
            data.extend(b"\0" * (size - len(data)))
        self._fs.events.append(("trunc", self._path, size))
        return size

    def close(self):
        if not self.closed:
            self._fs.events.append(("close", self._path))
            self._fs.open_handles -= 1
        super().close()


class SimFS:
    def __init__(self):
        self.files = {}  # path -> bytearray
        self.dirs = {PREFIX.rstrip("/")}
        self.events = []
        self.open_handles = 0
        self.fault = None
        self.fault_counts = {}
        self.opens = 0

    def fired(self, kind):
        self.fault_counts[kind] = self.fault_counts.get(kind, 0) + 1

    def make_namespace(self, d):
        self.dirs.add(d)

    # -- direct (test-side) access, not traced
    def put(self, path, data: bytes):
        self.files[path] = bytearray(data)
        clk = self.__dict__.setdefault("_put_clock", {})
        clk[path] = clk.get(path, 0) + 1

    def get(self, path):
        d = self.files.get(path)
        return None if d is None else bytes(d)

    def mark(self):
        return len(self.events)

    def events_since(self, mark, path=None):
        ev = self.events[mark:]
        if path is not None:
            ev = [e for e in ev if e[1] == path]
        return ev

    # -- the seam
    def open(self, file, mode="r", buffering=-1, encoding=None, errors=None,
             newline=None, closefd=True, opener=None):
        path = os.fspath(file)
        m = set(mode)
        binary = "b" in m
        plus = "+" in m
        kind = [c for c in "rwax" if c in m]
        if len(kind) != 1:
            raise ValueError(f"invalid mode: {mode!r}")
        kind = kind[0]
        if self.fault and self.fault[0] == "eacces":
            self.fault = None
            self.fired("eacces")
            self.events.append(("open_fault", path, mode))
            raise PermissionError(errno.EACCES, "simulated: permission denied", path)
        parent = os.path.dirname(path)
        if parent not in self.dirs:
            self.events.append(("open_enoent", path, mode))
            raise FileNotFoundError(errno.ENOENT, "No such file or directory", path)
        if path in self.dirs:
            raise IsADirectoryError(errno.EISDIR, "Is a directory", path)
        if kind == "r":
            if path not in self.files:
                self.events.append(("open_enoent", path, mode))
                raise FileNotFoundError(errno.ENOENT, "No such file or directory", path)
            self.events.append(("open_r", path))
            raw = SimRaw(self, path, True, plus, False)
        elif kind == "w":
            # POSIX O_TRUNC: the old content is gone the moment open returns
            existed = path in self.files
            self.files[path] = bytearray()
            self.events.append(("open_w", path, existed))
            raw = SimRaw(self, path, plus, True, False)
        elif kind == "x":
            if path in self.files:
                raise FileExistsError(errno.EEXIST, "File exists", path)
            self.files[path] = bytearray()
            self.events.append(("open_x", path))
            raw = SimRaw(self, path, plus, True, False)
        else:
            self.files.setdefault(path, bytearray())
            self.events.append(("open_a", path))
            raw = SimRaw(self, path, plus, True, True)
        self.open_handles += 1
        self.opens += 1
        if buffering == 0:
            if not binary:
                raise ValueError("can't have unbuffered text I/O")
            return raw
        bufsize = io.DEFAULT_BUFFER_SIZE if buffering < 0 else max(buffering, 1)
        if plus:
            buf = io.BufferedRandom(raw, bufsize)
        elif kind == "r":
            buf = io.BufferedReader(raw, bufsize)
        else:
            buf = io.BufferedWriter(raw, bufsize)
        if binary:
            return buf
        text = io.TextIOWrapper(buf, encoding=encoding or "utf-8", errors=errors,
                                newline=newline, line_buffering=(buffering == 1))
        text.mode = mode
        return text

    def exists(self, path):
        self.events.append(("exists", path))
        return path in self.files or path in self.dirs

    def _mtime_of(self, path):
        """derived from the event trace: 1 s base + 1 ms per modifying event on that path"""
        n = 0
        for e in self.events:
            if e[1] == path and e[0] in ("open_w", "open_x", "open_a", "write", "trunc", "renamed_onto"):
                n += 1
        return 10 ** 9 + n * 10 ** 6 + self.__dict__.get("_put_clock", {}).get(path, 0) * 10 ** 3

    def _ino(self, path):
        inos = self.__dict__.setdefault("_inos", {})
        if path not in inos:
            inos[path] = 1000 + len(inos)
        return inos[path]

    def stat(self, path):
        """os.stat/os.lstat for a simulated path (os.path.isfile/isdir/getsize/samefile build on it)"""
        path = path.rstrip("/") or "/"
        self.events.append(("stat", path))
        if path in self.files:
            # mtime: a logical clock advanced by every modification of that file (caches keyed by
            # (mtime, size) must see a rewritten file as changed, and an untouched one as unchanged)
            ns = self._mtime_of(path)
            sec = ns // 10 ** 9
            return os.stat_result((0o100644, self._ino(path), 7, 1, 0, 0, len(self.files[path]), sec, sec, sec,
                                   ns / 1e9, ns / 1e9, ns / 1e9, ns, ns, ns))
        if path in self.dirs:
            return os.stat_result((0o040755, self._ino(path), 7, 2, 0, 0, 4096, 0, 0, 0))
        raise FileNotFoundError(errno.ENOENT, "No such file or directory", path)

    def remove(self, path):
        if path in self.dirs:
            raise IsADirectoryError(errno.EISDIR, "Is a directory", path)
        if path not in self.files:
            raise FileNotFoundError(errno.ENOENT, "No such file or directory", path)
        del self.files[path]
        self.events.append(("unlink", path))

    def rename(self, src, dst):
        if src not in self.files:
            raise FileNotFoundError(errno.ENOENT, "No such file or directory", src)
        if os.path.dirname(dst) not in self.dirs:
            raise FileNotFoundError(errno.ENOENT, "No such file or directory", dst)
        if dst in self.dirs:
            raise IsADirectoryError(errno.EISDIR, "Is a directory", dst)
        self.files[dst] = self.files.pop(src)
        self.events.append(("rename", src, dst))
        self.events.append(("renamed_onto", dst, src))

    def listdir(self, path):
        path = path.rstrip("/")
        if path not in self.dirs:
            raise FileNotFoundError(errno.ENOENT, "No such file or directory", path)
        pre = path + "/"
        names = {p[len(pre):].split("/")[0] for p in list(self.files) + list(self.dirs) if p.startswith(pre)}
        return sorted(names)

    def rmdir(self, path):
        path = path.rstrip("/")
        if path not in self.dirs:
            raise FileNotFoundError(errno.ENOENT, "No such file or directory", path)
        if self.listdir(path):
            raise OSError(errno.ENOTEMPTY, "Directory not empty", path)
        self.dirs.discard(path)
        self.events.append(("rmdir", path))

    def mkdir(self, path, mode=0o777):
        path = path.rstrip("/")
        if path in self.dirs or path in self.files:
            raise FileExistsError(errno.EEXIST, "File exists", path)
        if os.path.dirname(path) not in self.dirs:
            raise FileNotFoundError(errno.ENOENT, "No such file or directory", path)
        self.dirs.add(path)
        self.events.append(("mkdir", path))


class RealFS:
    """Same interface, backed by a real scratch directory: '/simfs/x' is mapped to
    '<root>/x' and opened with the real open().  Used only by the stub-fidelity
    self-test (no event trace, no fault injection)."""

    def __init__(self, root):
        self.root = root
        self.events = []
        self.open_handles = 0
        self.fault = None
        self.fault_counts = {}
        self.opens = 0

    @property
    def dirs(self):
        out = {PREFIX.rstrip("/")}
        for dp, dns, _ in os.walk(self.root):
            for dn in dns:
                out.add(PREFIX + os.path.relpath(os.path.join(dp, dn), self.root))
        return out

    def _map(self, path):
        return os.path.join(self.root, os.fspath(path)[len(PREFIX):])

    def make_namespace(self, d):
        os.makedirs(self._map(d), exist_ok=True)

    @property
    def files(self):
        out = {}
        for dp, _, fns in os.walk(self.root):
            for fn in fns:
                full = os.path.join(dp, fn)
                with _real_open(full, "rb") as f:
                    out[PREFIX + os.path.relpath(full, self.root)] = bytearray(f.read())
        return out

    def put(self, path, data):
        with _real_open(self._map(path), "wb") as f:
            f.write(data)

    def get(self, path):
        try:
            with _real_open(self._map(path), "rb") as f:
                return f.read()
        except FileNotFoundError:
            return None

    def mark(self):
        return 0

    def events_since(self, mark, path=None):
        return []

    def fired(self, kind):
        pass

    def open(self, file, *a, **k):
        self.opens += 1
        return _real_open(self._map(file), *a, **k)

    def exists(self, path):
        return _real_exists(self._map(path))

    def mkdir(self, path, *a, **k):
        return _real_mkdir(self._map(path), *a, **k)

    def stat(self, path):
        return _real_stat(self._map(path))

    def remove(self, path):
        return _real_remove(self._map(path))

    def rename(self, src, dst):
        return _real_replace(self._map(src), self._map(dst))

    def listdir(self, path):
        return sorted(_real_listdir(self._map(path)))

    def rmdir(self, path):
        return _real_rmdir(self._map(path))


def _is_sim(path):
    try:
        p = os.fspath(path)
    except TypeError:
        return False
    return isinstance(p, str) and (p.startswith(PREFIX) or p == PREFIX[:-1])


def _open(file, *a, **k):
    if _current is not None and _is_sim(file):
        return _current.open(file, *a, **k)
    return _real_open(file, *a, **k)


def _exists(path):
    if _current is not None and _is_sim(path):
        return _current.exists(os.fspath(path))
    return _real_exists(path)


def _isdir(path):
    if _current is not None and _is_sim(path):
        return os.fspath(path).rstrip("/") in _current.dirs
    return _real_isdir(path)


def _mkdir(path, *a, **k):
    if _current is not None and _is_sim(path):
        return _current.mkdir(os.fspath(path), *a, **k)
    return _real_mkdir(path, *a, **k)


def _stat(path, *a, **k):
    if _current is not None and _is_sim(path):
        return _current.stat(os.fspath(path))
    return _real_stat(path, *a, **k)


def _lstat(path, *a, **k):
    if _current is not None and _is_sim(path):
        return _current.stat(os.fspath(path))
    return _real_lstat(path, *a, **k)


def _remove(path, *a, **k):
    if _current is not None and _is_sim(path):
        return _current.remove(os.fspath(path))
    return _real_remove(path, *a, **k)


def _unlink(path, *a, **k):
    if _current is not None and _is_sim(path):
        return _current.remove(os.fspath(path))
    return _real_unlink(path, *a, **k)


def _rename(src, dst, *a, **k):
    if _current is not None and (_is_sim(src) or _is_sim(dst)):
        if not (_is_sim(src) and _is_sim(dst)):
            raise OSError(errno.EXDEV, "Invalid cross-device link", os.fspath(src))
        return _current.rename(os.fspath(src), os.fspath(dst))
    return _real_rename(src, dst, *a, **k)


def _replace(src, dst, *a, **k):
    if _current is not None and (_is_sim(src) or _is_sim(dst)):
        if not (_is_sim(src) and _is_sim(dst)):
            raise OSError(errno.EXDEV, "Invalid cross-device link", os.fspath(src))
        return _current.rename(os.fspath(src), os.fspath(dst))
    return _real_replace(src, dst, *a, **k)


def _listdir(path=".", *a, **k):
    if _current is not None and _is_sim(path):
        return _current.listdir(os.fspath(path))
    return _real_listdir(path, *a, **k)


def _rmdir(path, *a, **k):
    if _current is not None and _is_sim(path):
        return _current.rmdir(os.fspath(path))
    return _real_rmdir(path, *a, **k)


def install():
    """Idempotent; replaces the module attributes praatio looks up at call time."""
    global _installed
    if _installed:
        return
    builtins.open = _open
    io.open = _open
    # os.path.exists / isdir / isfile / getsize / samefile / islink are built on os.stat and
    # look it up in `os` at call time, so owning os.stat/os.lstat covers them all
    os.mkdir = _mkdir
    # the rest of the path-level seam: os.path.isfile/getsize/samefile/islink and shutil's
    # copy/move helpers are built on these and are looked up in `os` at call time
    os.stat = _stat
    os.lstat = _lstat
    os.remove = _remove
    os.unlink = _unlink
    os.rename = _rename
    os.replace = _replace
    os.listdir = _listdir
    os.rmdir = _rmdir
    _installed = True


def use(fs):
    """Make *fs* the current file system (None = pass everything through)."""
    global _current
    _current = fs
