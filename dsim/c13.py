"""C13 -- copy-returning operations never mutate; failed mutations change
nothing; a failed save leaves the destination untouched.

System: the full heap -- tiers, Textgrids holding references to some of them
(one tier can be visible through several textgrids and through heap aliases
obtained with getTier), and SimFS files.

Oracles (after EVERY step, over EVERY live object and file, not only the
receiver):
  no-mutation     copy-returning op / query / validate / save / open, returned
                  or raised: nothing observable changed; the result is a new object
  all-or-nothing  a mutator that raised: nothing observable changed
  frame           a mutator that succeeded on r: only r, and the slot of r in
                  textgrids that hold r *by identity*, may change
  failed-save     a save rejected for one of the listed causes: the destination
                  was not opened for writing, truncated or written (SimFS event
                  trace), and every file is byte-identical
  overwrite       a successful save over a longer pre-existing file leaves
                  exactly what the same save writes to a fresh path
  argument        plain-value arguments (entry lists, name lists) are unchanged

Fault enumeration: after every state-changing step the catalogue of failing
calls (DESIGN s3.5) and of non-mutating calls is fired against live objects
(quick: a seeded ~40% subset; thorough: all).  None of them may change
anything, so they do not disturb the history.
"""
from .engine import Oracle, Violation, _fmt_step
from .gen import (G, H, BAD_OPTION, CROP_MODES, ERASE_MODES, SPACE_MODES, INS_MODES, REPORT, FORMATS,
                  NAMES, GRID)
from .world import (IntervalTier, PointTier, Textgrid, TextgridTier, audio, obs, obs_tier,
                    is_praatio_error)

PROP = "C13"

ASSUMPTIONS = [
    "observation = names, order, entries (exact, typed), spans of every live tier/textgrid and the bytes of every SimFS file",
    "tier OBJECTS shared by identity between textgrids (mergeTiers, appendTextgrid, editTimestamps pass tiers through) are legitimate; sharing is followed by observation (is), never assumed",
    "the failed-save clause covers the causes the property lists (invalid format/option, span overrides that cut entries, invalid textgrid under reportingMode='error'); injected device errors (ENOSPC/EIO/EACCES) are observations only",
]

RULE = ("one evaluation = one seeded history (run) of state-changing steps, each followed by the fault/no-op "
        "catalogue fired at live objects; distinct = distinct SHA-256 run fingerprints over the event log; "
        "non-trivial = >= 3 successful state-changing steps AND >= 1 mutator that reached its failure branch "
        "(raised) AND >= 10 catalogue probes executed.")


def config(rng, tier):
    deep = tier == "thorough"
    return {
        "regime": rng.choice(["grid", "grid", "decimal"]),
        "labels": rng.choice(["plain", "punct", "empty", "padded", "unicode", "numeric"]),
        "pad_inserts": True,
        "steps": rng.randrange(2, 31 if deep else 13),
        "probe_p": 1.0 if deep else 0.4,
        "probe_objs": 8 if deep else 3,
        "files": rng.random() < 0.7,
        "xio": rng.random() < 0.25,
        "tg_span": rng.choice(["none", "given", "given"]),
        "maxn": rng.choice([8] * 22 + [24, 40]),
        "names": rng.choice(["abcd"] * 5 + ["prefix", "odd", "unicode", "braces", "nfc", "glob"]),
        "warn_error": rng.random() < 0.15,  # run under warnings.simplefilter("error")
        "crash": rng.random() < 0.15,  # inject crashes at arbitrary lines inside mutators (observation only)
    }


# ----------------------------------------------------------------------------- oracle
def _tgsnap(tg):
    o = obs(tg)
    return o, tuple(id(t) for t in tg.tiers)


class C13Oracle(Oracle):
    name = "frame"

    def start(self, run):
        self.snap = None
        self.args_before = None
        self.mark = 0
        self.dest_before = None
        self.saves = {}  # path -> (step args signature, bytes) for the overwrite clause
        self.kept = []  # (step, object snapshot after it) for every step that may legitimately change state
        self.handed_out = {}  # id -> (mutable container returned by an earlier query, op name); kept alive for the run

    def fail(self, oracle, op, cls, detail):
        if detail.get("step") is None:
            detail["step"] = _fmt_step(self._cur.step)
        raise Violation(PROP, oracle, op, cls, detail)

    def _take(self, world):
        objs = {}
        ids = {}
        for h, o in world.heap.items():
            if isinstance(o, Textgrid):
                objs[h], ids[h] = _tgsnap(o)
            elif isinstance(o, TextgridTier):
                objs[h] = obs_tier(o)
            elif isinstance(o, list):
                objs[h] = ("list", repr(o))
        files = {p: bytes(d) for p, d in world.fs.files.items()}
        for d in world.fs.dirs:  # directories are part of what a call may not create or remove
            files[d + "/"] = b"<dir>"
        return objs, ids, files

    def before(self, run, out):
        if self.snap is None:
            self.snap = self._take(run.world)
        self.mark = run.world.fs.mark()
        if out.op.kind != "env":
            self.args_before = _plain_repr(out.args, out.kwargs)
        else:
            self.args_before = None

    def after(self, run, out):
        w = run.world
        kind = out.op.kind
        name = out.op.name
        before_objs, before_ids, before_files = self.snap
        now = self._take(w)
        self.snap = now
        now_objs, now_ids, now_files = now
        # twin execution (see finish): which steps may legitimately change the state of the heap?
        # everything that is not a probe, plus probes that turned out to be successful mutators
        if not out.step.get("probe") or (kind == "mut" and out.ok):
            self.kept.append((out.step, now_objs))
        if kind == "env":
            return
        brief = None  # filled in lazily by fail()
        self._cur = out
        oc = out.outcome
        # ---- plain-value arguments
        if self.args_before is not None and _plain_repr(out.args, out.kwargs) != self.args_before:
            self.fail("argument", name, "plain-argument-mutated", {"step": brief, "before": self.args_before[:500],
                                                                     "after": _plain_repr(out.args, out.kwargs)[:500]})
        recv = out.recv
        changed = [h for h in before_objs if h in now_objs and before_objs[h] != now_objs[h]]
        fchanged = sorted(p for p in set(before_files) | set(now_files)
                          if before_files.get(p) != now_files.get(p))

        def who(h):
            o = w.heap[h]
            if o is recv:
                return "receiver"
            if any(o is a for a in out.args) or any(o is a for a in out.kwargs.values()):
                return "argument"
            return "bystander"

        def tkind(h):
            o = w.heap[h]
            if isinstance(o, list):
                return "list"
            return "tg" if isinstance(o, Textgrid) else ("I" if isinstance(o, IntervalTier) else "P")

        if out.step.get("crash_at") and not out.ok and type(out.exc).__name__ == "InjectedCrash":
            # a crash injected at an arbitrary line inside a mutator: outside every listed failure cause.
            # Observed, never judged - except that objects other than the receiver (and textgrids
            # holding it) still may not change.
            dirty = [h for h in changed if w.heap[h] is not recv
                     and not (isinstance(w.heap[h], Textgrid) and isinstance(recv, TextgridTier)
                              and id(recv) in before_ids.get(h, ()))]
            if dirty:
                h = dirty[0]
                self.fail("frame", name, f"{who(h)}-{tkind(h)}-changed-by-crashed-call", {
                    "handle": h, "before": before_objs[h], "after": now_objs[h]})
            run.stats["observation:crash_mid_mutator:" + name + (":left_partial_state" if changed else ":state_intact")] += 1
            return
        if kind == "mut" and out.ok:
            # ---- frame condition
            for h in changed:
                o = w.heap[h]
                if o is recv:
                    continue
                if isinstance(o, Textgrid) and isinstance(recv, TextgridTier):
                    held = [i for i, tid in enumerate(before_ids[h]) if tid == id(recv)]
                    if held and _masked(before_objs[h], held) == _masked(now_objs[h], held):
                        run.stats["probe:mutation_seen_through_holding_textgrid"] += 1
                        continue
                self.fail("frame", name, f"{who(h)}-{tkind(h)}-changed", {
                    "step": brief, "handle": h, "before": before_objs[h], "after": now_objs[h]})
            if fchanged:
                self.fail("frame", name, "file-changed", {"step": brief, "files": fchanged})
            return
        if kind == "mut":
            # ---- all-or-nothing
            if changed:
                h = changed[0]
                self.fail("all-or-nothing", name, f"{who(h)}-{tkind(h)}-changed/{oc}", {
                    "step": brief, "exc": repr(out.exc), "handle": h,
                    "before": before_objs[h], "after": now_objs[h]})
            if fchanged:
                self.fail("all-or-nothing", name, f"file-changed/{oc}", {"step": brief, "files": fchanged})
            return
        # ---- everything else must not mutate anything (returned or raised)
        how = "returned" if out.ok else "raised"
        if changed:
            h = changed[0]
            self.fail("no-mutation", name, f"{who(h)}-{tkind(h)}-changed/{how}", {
                "step": brief, "outcome": oc, "handle": h, "before": before_objs[h], "after": now_objs[h]})
        if kind == "save":
            dest = out.args[0] if out.args else out.kwargs.get("fn")
            others = [p for p in fchanged if p != dest]
            if others:
                self.fail("no-mutation", name, f"other-file-changed/{how}", {"step": brief, "files": others})
            ev = [e for e in w.fs.events_since(self.mark, dest) if e[0] in
                  ("open_w", "open_a", "open_x", "trunc", "write", "unlink", "rename", "renamed_onto")]
            if not out.ok:
                injected = isinstance(out.exc, OSError)
                if injected:
                    if dest in fchanged:
                        run.stats["observation:save_under_io_fault_changed_destination"] += 1
                    else:
                        run.stats["observation:save_under_io_fault_left_destination"] += 1
                    return
                if dest in fchanged or ev:
                    self.fail("failed-save", name, f"destination-touched/{oc}", {
                        "step": brief, "exc": repr(out.exc), "events": [list(e) for e in ev][:6],
                        "before_len": len(before_files.get(dest, b"")) if dest in before_files else None,
                        "after_len": len(now_files.get(dest, b"")) if dest in now_files else None})
                run.stats["probe:failed_save_destination_checked"] += 1
            else:
                same = out.step.get("same_as")
                same = None if same is None else w.dec(same)
                if same is not None and same in now_files:
                    if now_files.get(dest) != now_files.get(same):
                        self.fail("overwrite", name, "content-depends-on-previous-file", {
                            "step": brief, "fresh_len": len(now_files.get(dest, b"")),
                            "overwritten_len": len(now_files.get(same, b""))})
                    run.stats["probe:overwrite_vs_fresh_compared"] += 1
            return
        if fchanged:
            self.fail("no-mutation", name, f"file-changed/{how}", {"step": brief, "files": fchanged})
        if name == "tier.iterpair" and out.ok:
            # two iterations of one tier going on at the same time are independent of each other
            want = [(e, e) for e in recv.entries]
            if [(tuple(a), tuple(b)) for a, b in out.result] != [(tuple(a), tuple(b)) for a, b in want]:
                self.fail("no-mutation", name, "concurrent-iterations-interfere",
                          {"step": brief, "pairs": repr(out.result)[:300], "entries": repr(recv.entries)[:300]})
        if out.ok and kind == "query":
            # "return new objects": a mutable container inside a query result belongs to the caller.
            # It may not be one that an EARLIER call already handed out (a shared default / cached list
            # which the first caller may have appended to).  Containers reachable from this call's own
            # arguments are not judged (results may legitimately quote their arguments' elements).
            mine = _mutables([out.args, out.kwargs], 4000)
            for c in _mutables([out.result], 4000).values():
                if id(c) in mine:
                    continue
                prev = self.handed_out.get(id(c))
                if prev is not None and prev[0] is c:
                    self.fail("no-mutation", name, "result-shares-container-with-earlier-result",
                              {"step": brief, "earlier_op": prev[1], "container": repr(c)[:200]})
                self.handed_out[id(c)] = (c, name)
            run.stats["probe:query_result_freshness_checked"] += 1
        if out.ok and kind == "copy":
            r = out.result
            if r is recv or any(r is a for a in out.args) or any(r is a for a in out.kwargs.values()):
                self.fail("no-mutation", name, "returned-receiver-or-argument", {"step": brief})
            outh = out.step.get("out")
            if _is_obj(r) and any(r is o for hh, o in w.heap.items() if hh != outh):
                self.fail("no-mutation", name, "returned-existing-object", {"step": brief})


def _mutables(roots, cap):
    """id -> object for every list / dict / set / bytearray reachable from roots through lists, tuples,
    dicts and sets (at most cap nodes are visited)."""
    out = {}
    seen = set()
    stack = list(roots)
    n = 0
    while stack and n < cap:
        o = stack.pop()
        n += 1
        if id(o) in seen:
            continue
        seen.add(id(o))
        if isinstance(o, (list, dict, set, bytearray)):
            out[id(o)] = o
        if isinstance(o, dict):
            stack.extend(o.keys())
            stack.extend(o.values())
        elif isinstance(o, (list, tuple, set, frozenset)):
            stack.extend(o)
    return out


def _twin(run, oracle):
    """Probes are behaviourally invisible: replay ONLY the steps that may
    legitimately change state (no catalogue probes) in a fresh world, without
    oracles, and require the same observable heap after each of them.  A failed
    call or a query that leaves hidden state behind (a flag, a cache, a changed
    internal representation) which alters the result of a LATER operation shows
    up here although every single before/after comparison was clean."""
    from . import ops as opsmod
    from .world import World, Skip
    from . import simfs

    n_probes = run.executed - len(oracle.kept)
    if n_probes <= 0 or not oracle.kept:
        return
    from .world import capture_stdout

    main_fs = run.world.fs
    capture_stdout(True)
    w = World()
    try:
        for i, (step, expect) in enumerate(oracle.kept):
            try:
                o = opsmod.resolve(w, step)
            except Skip:
                raise Violation(PROP, "twin", step["op"], "step-not-executable-without-probes",
                                {"index": i, "step": _fmt_step(step)})
            opsmod.invoke(w, o)
            got = {}
            for h, obj in w.heap.items():
                if isinstance(obj, Textgrid):
                    got[h] = obs(obj)
                elif isinstance(obj, TextgridTier):
                    got[h] = obs_tier(obj)
                elif isinstance(obj, list):
                    got[h] = ("list", repr(obj))
            if got != expect:
                diff = sorted(h for h in set(got) | set(expect) if got.get(h) != expect.get(h))
                h = diff[0]
                raise Violation(PROP, "twin", step["op"], "history-diverges-when-probes-are-left-out", {
                    "index": i, "step": _fmt_step(step), "handle": h,
                    "with_probes": expect.get(h), "without_probes": got.get(h),
                    "probes_left_out": n_probes})
        run.stats["probe:twin_histories_compared"] += 1
    finally:
        capture_stdout(False)
        simfs.use(main_fs)


def _is_obj(r):
    return isinstance(r, (TextgridTier, Textgrid))


def _masked(tgobs, idxs):
    tiers = list(tgobs[4])
    for i in idxs:
        if i < len(tiers):
            tiers[i] = None
    return tgobs[:4] + (tuple(tiers),)


def _plain_repr(args, kwargs):
    """repr of the plain-value (non-praatio-object) arguments; callables and
    heap objects are replaced by a placeholder"""

    def conv(v):
        if isinstance(v, (TextgridTier, Textgrid, audio.AbstractWav)) or callable(v):
            return "<obj>"
        if isinstance(v, list):
            return [conv(x) for x in v]
        if isinstance(v, tuple) and not hasattr(v, "_fields"):
            return tuple(conv(x) for x in v)
        return v

    return repr(([conv(a) for a in args], {k: conv(v) for k, v in sorted(kwargs.items())}))


def oracles(cfg):
    return [C13Oracle()]


def _finish(self, run):
    _twin(run, self)


C13Oracle.finish = _finish


# ----------------------------------------------------------------------------- catalogue
def tier_catalogue(g, w, h, others):
    """failing calls + non-mutating calls for tier h (steps; no 'out': results are discarded)"""
    rng = g.rng
    t = w.heap[h]
    is_int = isinstance(t, IntervalTier)
    ents = t.entries
    pool = g.pool_of(t, *[w.heap[x] for x in others])
    cat = []
    lab = g.ins_label()
    # ---- failing mutators
    good = [0.0, 1.0, lab] if is_int else [1.0, lab]
    kind = "I" if is_int else "P"
    cat.append({"op": "tier.insertEntry", "recv": h, "a": [g.enc_entry(good, kind)],
                "k": {"collisionMode": BAD_OPTION, "collisionReportingMode": "silence"}, "tag": "F-opt"})
    cat.append({"op": "tier.insertEntry", "recv": h, "a": [g.enc_entry(good, kind)],
                "k": {"collisionMode": g.pick(INS_MODES), "collisionReportingMode": BAD_OPTION}, "tag": "F-opt"})
    if is_int:
        a, b = g.span(pool)
        cat.append({"op": "tier.insertEntry", "recv": h, "a": [g.enc_entry([b, a, lab], "I")],
                    "k": {"collisionMode": g.pick(INS_MODES), "collisionReportingMode": "silence"}, "tag": "F-degen"})
        cat.append({"op": "tier.insertEntry", "recv": h, "a": [g.enc_entry([a, a, lab], "I")],
                    "k": {"collisionMode": g.pick(INS_MODES), "collisionReportingMode": "silence"}, "tag": "F-degen"})
        cat.append({"op": "tier.insertEntry", "recv": h, "a": [{"$t": [a, lab]}],
                    "k": {"collisionMode": g.pick(INS_MODES), "collisionReportingMode": "silence"}, "tag": "F-arity"})
        if ents:
            e = g.pick(ents)
            s, en = float(e.start), float(e.end)
            step = 1 / GRID if g.regime == "grid" else 0.25
            variants = {
                "identical": (s, en),
                "partial-left": (max(0.0, s - step), (s + en) / 2),
                "partial-right": ((s + en) / 2, en + step),
                "containing": (max(0.0, s - step), en + step),
                "contained": (s + (en - s) / 4, en - (en - s) / 4),
                "multi": (float(ents[0].start), float(ents[-1].end)),
            }
            for vname, (x, y) in variants.items():
                if x < y:
                    cat.append({"op": "tier.insertEntry", "recv": h, "a": [g.enc_entry([x, y, lab], "I")],
                                "k": {"collisionMode": "error", "collisionReportingMode": g.pick(["silence", "warning"])},
                                "tag": "F-coll", "cat": vname})
    else:
        cat.append({"op": "tier.insertEntry", "recv": h, "a": [{"$t": [1.0]}],
                    "k": {"collisionMode": g.pick(INS_MODES), "collisionReportingMode": "silence"}, "tag": "F-arity"})
        if ents:
            e = g.pick(ents)
            cat.append({"op": "tier.insertEntry", "recv": h, "a": [g.enc_entry([e.time, lab], "P")],
                        "k": {"collisionMode": "error", "collisionReportingMode": g.pick(["silence", "warning"])},
                        "tag": "F-coll", "cat": "same-time"})
    if ents:
        # a label that is not a string, aimed at an existing entry, in the modes that delete before inserting
        e = g.pick(ents)
        bad = g.pick([None, 7, 1.5])
        vals = [float(e.start), float(e.end), bad] if is_int else [e.time, bad]
        for m in ("replace", "merge"):
            cat.append({"op": "tier.insertEntry", "recv": h, "a": [{"$t": vals}],
                        "k": {"collisionMode": m, "collisionReportingMode": "silence"}, "tag": "F-label", "cat": m})
    cat.append({"op": "tier.insertEntry", "recv": h, "a": [None],
                "k": {"collisionMode": g.pick(INS_MODES), "collisionReportingMode": "silence"}, "tag": "F-arity"})
    cat.append(g.step_delete(w, h, present=False))
    cat.append({"op": "tier.deleteEntry", "recv": h, "a": [None], "tag": "F-missing"})
    # ---- copy-returning ops with fresh arguments (some deliberately invalid)
    for mk in (g.step_crop, g.step_erase, g.step_space):
        st = mk(w, h, pool)
        cat.append(st)
        st2 = mk(w, h, pool)
        k = rng.random()
        if k < 0.4:
            st2["a"][2] = BAD_OPTION
            st2["tag"] = "F-opt"
        elif mk is not g.step_space:
            st2["a"][0], st2["a"][1] = st2["a"][1], st2["a"][0]
            st2["tag"] = "F-degen"
        else:
            st2["a"][2] = "error"
            st2["tag"] = "F-coll"
        cat.append(st2)
    st = g.step_erase(w, h, pool)
    st["a"][2] = "error"
    st["tag"] = "F-coll"
    cat.append(st)
    cat.append(g.step_shift(w, h))
    st = g.step_shift(w, h)
    st["a"][1] = g.pick([BAD_OPTION, "error"])
    st["tag"] = "F-opt" if st["a"][1] == BAD_OPTION else "F-span"
    cat.append(st)
    cat.append(g.step_new(w, h))
    same = [x for x in others if isinstance(w.heap[x], type(t))] or [h]
    anyt = others or [h]
    for m in ("union", "appendTier"):
        cat.append(g.step_binary(w, h, g.pick(same), m))
    cat.append(g.step_binary(w, h, g.pick(anyt), "union"))
    cat.append(g.step_dejitter(w, h, g.pick(anyt)))
    if is_int:
        for m in ("difference", "intersection", "mergeLabels"):
            cat.append(g.step_binary(w, h, g.pick(same), m))
        eq = [x for x in same if len(w.heap[x].entries) == len(ents)]
        cat.append(g.step_morph(w, h, g.pick(eq) if eq else h))
        cat.append(g.step_morph(w, h, g.pick(same)))
    # ---- queries
    cat.append({"op": "tier.find", "recv": h, "a": [g.label().strip(), rng.random() < 0.5, False]})
    cat.append({"op": "tier.find", "recv": h, "a": [g.pick(["a", "b|c", ".", "^$"]), False, True]})
    data = [[g.raw_time(), rng.randrange(100)] for _ in range(rng.randrange(0, 6))]
    if is_int:
        cat.append({"op": "tier.getNonEntries", "recv": h})
        cat.append({"op": "tier.getValuesInIntervals", "recv": h, "a": [data]})
    else:
        cat.append({"op": "tier.getValuesAtPoints", "recv": h, "a": [data, rng.random() < 0.5]})
    for q in ("tier.timestamps", "tier.entries", "tier.iter", "tier.len", "tier.iterpair"):
        cat.append({"op": q, "recv": h})
    cat.append({"op": "tier.eq", "recv": h, "a": [H(g.pick(anyt))]})
    cat.append({"op": "tier.validate", "recv": h, "a": [g.pick(REPORT + [BAD_OPTION])]})
    for st in cat:
        st.pop("out", None)
        st["probe"] = True
    return cat


def tg_catalogue(g, w, h, tiers, tgs, wide, fileno, files_on):
    rng = g.rng
    tg = w.heap[h]
    names = list(tg.tierNames)
    absent = [n for n in g.names if n not in names] or ["zz"]
    pool = g.pool_of(tg)
    cat = []
    free = [x for x in tiers if w.heap[x].name not in names]
    clash = [x for x in tiers if w.heap[x].name in names]
    has_span = tg.minTimestamp is not None and tg.maxTimestamp is not None
    # ---- failing mutators
    if clash:
        cat.append({"op": "tg.addTier", "recv": h, "a": [H(g.pick(clash))],
                    "k": {"tierIndex": g.pick([None, 0, 1, -1]), "reportingMode": g.pick(REPORT)}, "tag": "F-clash"})
    if free:
        cat.append({"op": "tg.addTier", "recv": h, "a": [H(g.pick(free))],
                    "k": {"tierIndex": g.pick([None, 0, 5]), "reportingMode": BAD_OPTION}, "tag": "F-opt"})
    wider = [x for x in free if has_span and (w.heap[x].maxTimestamp > tg.maxTimestamp
                                              or w.heap[x].minTimestamp < tg.minTimestamp)]
    if wide is not None and wide in w.heap and has_span and w.heap[wide].name not in names \
            and w.heap[wide].maxTimestamp > tg.maxTimestamp:
        wider.append(wide)
    for x in wider[:2]:
        cat.append({"op": "tg.addTier", "recv": h, "a": [H(x)],
                    "k": {"tierIndex": g.pick([None, 0, 1]), "reportingMode": "error"}, "tag": "F-span"})
    if free:
        cat.append({"op": "tg.addTier", "recv": h, "a": [H(g.pick(free))],
                    "k": {"tierIndex": g.pick([1.5, "0", 2.0]), "reportingMode": g.pick(REPORT)}, "tag": "F-index"})
    cat.append({"op": "tg.addTier", "recv": h, "a": [None], "k": {"reportingMode": g.pick(REPORT)}, "tag": "F-nontier"})
    if names:
        cat.append({"op": "tg.replaceTier", "recv": h, "a": [g.pick(names), g.pick([None, 7])],
                    "k": {"reportingMode": g.pick(REPORT)}, "tag": "F-nontier"})
    cat.append({"op": "tg.removeTier", "recv": h, "a": [g.pick(absent)], "tag": "F-missing"})
    cat.append({"op": "tg.renameTier", "recv": h, "a": [g.pick(absent), g.pick(g.names)], "tag": "F-missing"})
    if len(names) > 1:
        old = g.pick(names)
        cat.append({"op": "tg.renameTier", "recv": h, "a": [old, g.pick([n for n in names if n != old])],
                    "tag": "F-clash"})
    if tiers:
        cat.append({"op": "tg.replaceTier", "recv": h, "a": [g.pick(absent), H(g.pick(tiers))], "tag": "F-missing"})
    if names:
        old = g.pick(names)
        others = [n for n in names if n != old]
        cl = [x for x in tiers if w.heap[x].name in others]
        if cl:
            cat.append({"op": "tg.replaceTier", "recv": h, "a": [old, H(g.pick(cl))],
                        "k": {"reportingMode": g.pick(REPORT)}, "tag": "F-clash"})
        okt = [x for x in tiers if w.heap[x].name not in others]
        if okt:
            cat.append({"op": "tg.replaceTier", "recv": h, "a": [old, H(g.pick(okt))],
                        "k": {"reportingMode": BAD_OPTION}, "tag": "F-opt"})
        wd = [x for x in okt if has_span and (w.heap[x].maxTimestamp > tg.maxTimestamp
                                              or w.heap[x].minTimestamp < tg.minTimestamp)]
        if wide is not None and wide in w.heap and has_span and w.heap[wide].name not in others \
                and w.heap[wide].maxTimestamp > tg.maxTimestamp:
            wd.append(wide)
        for x in wd[:2]:
            cat.append({"op": "tg.replaceTier", "recv": h, "a": [old, H(x)], "k": {"reportingMode": "error"},
                        "tag": "F-span"})
    # ---- copy-returning ops
    if has_span:
        a, b = g.span(pool)
        cat.append({"op": "tg.crop", "recv": h, "a": [a, b, g.pick(CROP_MODES), rng.random() < 0.5]})
        cat.append({"op": "tg.crop", "recv": h, "a": [b, a, g.pick(CROP_MODES), rng.random() < 0.5], "tag": "F-degen"})
        cat.append({"op": "tg.crop", "recv": h, "a": [a, b, BAD_OPTION, False], "tag": "F-opt"})
        a, b = g.span(pool)
        cat.append({"op": "tg.eraseRegion", "recv": h, "a": [a, b, rng.random() < 0.5]})
        cat.append({"op": "tg.eraseRegion", "recv": h, "a": [b, a, True], "tag": "F-degen"})
        cat.append({"op": "tg.insertSpace", "recv": h, "a": [g.time(pool), g.duration(), g.pick(SPACE_MODES)]})
        cat.append({"op": "tg.insertSpace", "recv": h, "a": [g.time(pool), g.duration(), "error"], "tag": "F-coll"})
        cat.append({"op": "tg.insertSpace", "recv": h, "a": [g.time(pool), g.duration(), BAD_OPTION], "tag": "F-opt"})
        cat.append({"op": "tg.editTimestamps", "recv": h, "a": [g.offset(), g.pick(REPORT)]})
        cat.append({"op": "tg.editTimestamps", "recv": h, "a": [g.offset(), "error"], "tag": "F-span"})
        cat.append({"op": "tg.editTimestamps", "recv": h, "a": [g.offset(), BAD_OPTION], "tag": "F-opt"})
        other = g.pick(tgs)
        cat.append({"op": "tg.appendTextgrid", "recv": h, "a": [H(other), rng.random() < 0.5]})
    sel = None if (rng.random() < 0.4 or not names) else rng.sample(names, rng.randrange(1, len(names) + 1))
    cat.append({"op": "tg.mergeTiers", "recv": h, "a": [sel, rng.random() < 0.5]})
    cat.append({"op": "tg.mergeTiers", "recv": h, "a": [[g.pick(absent)] + names[:1], True], "tag": "F-missing"})
    cat.append({"op": "tg.new", "recv": h})
    # ---- queries
    cat.append({"op": "tg.validate", "recv": h, "a": [g.pick(REPORT + [BAD_OPTION])]})
    for q in ("tg.tierNames", "tg.tiers", "tg.iter", "tg.len"):
        cat.append({"op": q, "recv": h})
    cat.append({"op": "tg.eq", "recv": h, "a": [H(g.pick(tgs))]})
    if names:
        cat.append({"op": "tg.getTier", "recv": h, "a": [g.pick(names)]})
    cat.append({"op": "tg.getTier", "recv": h, "a": [g.pick(absent)], "tag": "F-missing"})
    for st in cat:
        st["probe"] = True
    # ---- saves (each failing variant against a pre-existing destination)
    saves = []
    if files_on and has_span:
        # the generator only READS attributes; calling tg.validate() here would let a
        # validate() that mutates leak unrecorded state changes into the history
        valid = all(t.minTimestamp == tg.minTimestamp and t.maxTimestamp == tg.maxTimestamp for t in tg.tiers)
        its = [t for t in tg.tiers if isinstance(t, IntervalTier) and len(t.entries)]
        variants = [("bad-format", {"a": ["bogus", True], "k": {}}),
                    ("bad-reporting", {"a": [g.pick(FORMATS), rng.random() < 0.5], "k": {"reportingMode": BAD_OPTION}})]
        if its:
            first = min(float(t.entries[0].start) for t in its)
            last = max(float(t.entries[-1].end) for t in its)
            variants.append(("min-above-first-entry",
                             {"a": [g.pick(FORMATS), True], "k": {"minTimestamp": first + 0.5, "reportingMode": "silence"}}))
            if last - 0.5 > 0:
                variants.append(("max-below-last-entry",
                                 {"a": [g.pick(FORMATS), True],
                                  "k": {"maxTimestamp": last - 0.5, "reportingMode": "silence"}}))
        if its:
            variants.append(("bad-minimumIntervalLength",
                             {"a": [g.pick(FORMATS), True], "k": {"minimumIntervalLength": "short", "reportingMode": "silence"}}))
        # overrides together with reportingMode='error' (validation happens against the textgrid's own span)
        variants.append(("override-with-error-mode",
                         {"a": [g.pick(FORMATS), rng.random() < 0.5],
                          "k": {"maxTimestamp": float(tg.maxTimestamp) + g.pick([1.0, 2.5]),
                                "minTimestamp": g.pick([None, 0.0]), "reportingMode": "error"}}))
        if not valid:
            variants.append(("invalid-tg-error-mode", {"a": [g.pick(FORMATS), rng.random() < 0.5],
                                                       "k": {"reportingMode": "error"}}))
        for vname, spec in variants:
            fileno[0] += 1
            path = f"/simfs/c13_{fileno[0]}.TextGrid"
            prev = rng.random()
            if prev < 0.12:
                # destination in a directory that does not exist: a rejected save must not create it
                path = f"/simfs/newdir_{fileno[0]}/sub/c13.TextGrid"
            elif prev < 0.5:
                junk = rng.randbytes(0 if rng.random() < 0.25 else rng.randrange(1, 600))
                saves.append({"op": "env.put", "a": [path, {"$b": junk.hex()}]})
            elif "newdir" not in path:
                saves.append({"op": "tg.save", "recv": h, "a": [path, g.pick(FORMATS), True],
                              "k": {"reportingMode": "silence"}, "probe": True, "tag": "E-presave"})
            saves.append({"op": "tg.save", "recv": h, "a": [path] + spec["a"], "k": spec["k"],
                          "tag": "F-save", "cat": vname, "probe": True})
        # successful save over a longer pre-existing file vs the same save to a fresh path
        fileno[0] += 1
        p1 = f"/simfs/c13_{fileno[0]}.TextGrid"
        fileno[0] += 1
        p2 = f"/simfs/c13_{fileno[0]}.TextGrid"
        fmt, blanks = g.pick(FORMATS), rng.random() < 0.5
        junk = rng.randbytes(5000)
        kw = {"reportingMode": g.pick(["silence", "silence", "warning"])}
        if rng.random() < 0.4:
            kw["minimumIntervalLength"] = g.pick([None, 0.5, 1e-8])
        if rng.random() < 0.3:
            kw["maxTimestamp"] = float(tg.maxTimestamp) + g.pick([0.0, 1.0, 2.5])
        if rng.random() < 0.2:
            kw["minTimestamp"] = 0.0
        saves.append({"op": "env.put", "a": [p1, {"$b": junk.hex()}]})
        saves.append({"op": "tg.save", "recv": h, "a": [p1, fmt, blanks], "k": dict(kw),
                      "tag": "E-overwrite", "probe": True})
        saves.append({"op": "tg.save", "recv": h, "a": [p2, fmt, blanks], "k": dict(kw),
                      "same_as": p1, "probe": True})
    return cat, saves


# ----------------------------------------------------------------------------- generator
def generate(run, rng):
    cfg = run.cfg
    g = G(rng, cfg)
    w = run.world
    top = 16.0 if cfg["regime"] == "grid" else 1000.0
    fileno = [0]
    saved_paths = []

    def mk_tier(name=None, uniform=None):
        if rng.random() < 0.25:
            # two objects built from the SAME list object (hidden aliasing through an argument)
            lists = w.live(list)
            if not lists or rng.random() < 0.4:
                run.do(g.step_mklist(w, g.pick(["I", "I", "P"])))
                lists = w.live(list)
                if len(lists) > 2:
                    run.do({"op": "env.drop", "a": lists[:1]})
                    lists = w.live(list)
            lh = g.pick(lists)
            k = g.list_kind(w.heap[lh])
            same = w.live(IntervalTier if k == "I" else PointTier)
            if same and rng.random() < 0.4:
                st = {"op": "tier.new", "recv": g.pick(same), "a": [], "k": {"entries": H(lh)},
                      "out": w.new_handle(), "tag": "E-shared-list"}
                o = run.do(st)
                return st["out"] if (o is not None and o.ok) else None
            st = g.ctor_from_list(w, lh, name)
        else:
            st = g.ctor_interval(w, name) if rng.random() < 0.6 else g.ctor_point(w, name, distinct=False)
        if uniform if uniform is not None else rng.random() < 0.5:
            st["a"][2], st["a"][3] = 0.0, top
            if rng.random() < 0.12:
                import math as _m
                st["a"][3] = _m.nextafter(top, rng.choice([_m.inf, -_m.inf]))  # one ulp off the common span
        o = run.do(st)
        return st["out"] if (o is not None and o.ok) else None

    def mk_tg(fill=True):
        h = w.new_handle()
        a = [] if cfg["tg_span"] == "none" else [0.0, top]
        run.do({"op": "Textgrid", "a": a, "out": h})
        if fill:
            for th in rng.sample(w.live(TextgridTier), min(len(w.live(TextgridTier)), rng.randrange(0, 4))):
                run.do({"op": "tg.addTier", "recv": h, "a": [H(th)], "k": {"reportingMode": "silence"}})
        return h

    for _ in range(rng.randrange(2, 5)):
        mk_tier()
    # a tier wider than everything, used by the F-span variants
    wide = w.new_handle()
    run.do({"op": "IntervalTier", "a": ["w", [[0.0, top + 3.0, "wide"]], 0.0, top + 4.0], "out": wide})
    mk_tg()
    if rng.random() < 0.4:
        mk_tg()

    def fire(steps):
        for st in steps:
            if st.get("probe") and st["op"] != "tg.save" and rng.random() >= cfg["probe_p"]:
                continue
            o = run.do(st)
            if o is not None and st.get("probe"):
                run.stats["c13:probes"] += 1
                if st.get("tag") and o.op.kind == "mut":
                    run.stats["c13:failing_mutator_" + ("raised" if not o.ok else "returned")] += 1

    def catalogue_round():
        tiers = w.live(TextgridTier)
        tgs = w.live(Textgrid)
        objs = tiers + tgs
        if not objs:
            return
        chosen = objs if len(objs) <= cfg["probe_objs"] else rng.sample(objs, cfg["probe_objs"])
        for h in sorted(chosen):
            if h not in w.heap:
                continue
            if isinstance(w.heap[h], TextgridTier):
                fire(tier_catalogue(g, w, h, [x for x in w.live(TextgridTier) if x != h]))
            else:
                cat, saves = tg_catalogue(g, w, h, w.live(TextgridTier), w.live(Textgrid), wide, fileno,
                                          cfg["files"])
                fire(cat)
                if saves and rng.random() < (1.0 if cfg["probe_p"] >= 1.0 else 0.5):
                    fire(saves)

    catalogue_round()
    for _ in range(cfg["steps"]):
        tiers = w.live(TextgridTier)
        tgs = w.live(Textgrid)
        if not tiers:
            mk_tier()
            continue
        if not tgs:
            mk_tg()
            continue
        r = rng.random()
        pool = g.world_pool(w)

        def crashy(st):
            if cfg.get("crash") and rng.random() < 0.3:
                st["crash_at"] = rng.randrange(1, 90)
                st["tag"] = "X-crash"
            return st

        if r < 0.22:
            h = g.pick(tiers)
            run.do(crashy(g.step_insert(w, h, extra_pool=pool)))
        elif r < 0.30:
            h = g.pick(tiers)
            run.do(crashy(g.step_delete(w, h, present=True)))
        elif r < 0.44:
            tgh = g.pick(tgs)
            tg = w.heap[tgh]
            names = list(tg.tierNames)
            absent = [n for n in g.names if n not in names]
            k = rng.random()
            free = [x for x in tiers if w.heap[x].name not in names]
            if k < 0.45 and free:
                run.do(crashy({"op": "tg.addTier", "recv": tgh, "a": [H(g.pick(free))],
                               "k": {"tierIndex": g.pick([None, None, 0, 1, -1, 7]),
                                     "reportingMode": g.pick(["silence", "warning"])}}))
            elif k < 0.6 and names:
                run.do(crashy({"op": "tg.removeTier", "recv": tgh, "a": [g.pick(names)]}))
            elif k < 0.8 and names and absent:
                run.do(crashy({"op": "tg.renameTier", "recv": tgh, "a": [g.pick(names), g.pick(absent)]}))
            elif names:
                old = g.pick(names)
                okt = [x for x in tiers if w.heap[x].name not in [n for n in names if n != old]]
                if okt:
                    run.do(crashy({"op": "tg.replaceTier", "recv": tgh, "a": [old, H(g.pick(okt))],
                                   "k": {"reportingMode": g.pick(["silence", "warning"])}}))
        elif r < 0.52:
            # alias: a tier living inside a textgrid becomes a heap receiver
            tgh = g.pick(tgs)
            names = list(w.heap[tgh].tierNames)
            if names:
                run.do({"op": "tg.getTier", "recv": tgh, "a": [g.pick(names)], "out": w.new_handle()})
        elif r < 0.66:
            h = g.pick(tiers)
            t = w.heap[h]
            k = g.pick(["crop", "erase", "space", "shift", "union", "appendTier", "new", "dejitter",
                        "difference", "intersection", "mergeLabels"])
            if k == "crop":
                st = g.step_crop(w, h, pool)
            elif k == "erase":
                st = g.step_erase(w, h, pool)
            elif k == "space":
                st = g.step_space(w, h, pool)
            elif k == "shift":
                st = g.step_shift(w, h)
            elif k == "new":
                st = g.step_new(w, h)
            elif k == "dejitter":
                st = g.step_dejitter(w, h, g.pick(tiers))
            elif k in ("union", "appendTier"):
                st = g.step_binary(w, h, g.same_type_partner(w, h), k)
            else:
                its = w.live(IntervalTier)
                if not its:
                    continue
                st = g.step_binary(w, g.pick(its), g.pick(its), k)
            run.do(st)
        elif r < 0.80:
            tgh = g.pick(tgs)
            tg = w.heap[tgh]
            names = list(tg.tierNames)
            out_h = w.new_handle()
            k = rng.random()
            if tg.minTimestamp is None or tg.maxTimestamp is None:
                run.do({"op": "tg.new", "recv": tgh, "out": out_h})
            elif k < 0.2:
                a, b = g.span(pool)
                run.do({"op": "tg.crop", "recv": tgh, "a": [a, b, g.pick(CROP_MODES), rng.random() < 0.5], "out": out_h})
            elif k < 0.35:
                a, b = g.span(pool)
                run.do({"op": "tg.eraseRegion", "recv": tgh, "a": [a, b, rng.random() < 0.5], "out": out_h})
            elif k < 0.5:
                run.do({"op": "tg.insertSpace", "recv": tgh, "a": [g.time(pool), g.duration(), g.pick(SPACE_MODES)],
                        "out": out_h})
            elif k < 0.65:
                run.do({"op": "tg.editTimestamps", "recv": tgh, "a": [g.offset(), g.pick(["silence", "warning"])],
                        "out": out_h})
            elif k < 0.8:
                sel = None if (rng.random() < 0.4 or not names) else rng.sample(names, rng.randrange(1, len(names) + 1))
                run.do({"op": "tg.mergeTiers", "recv": tgh, "a": [sel, rng.random() < 0.7], "out": out_h})
            elif k < 0.9:
                run.do({"op": "tg.appendTextgrid", "recv": tgh, "a": [H(g.pick(tgs)), rng.random() < 0.5], "out": out_h})
            else:
                run.do({"op": "tg.new", "recv": tgh, "out": out_h})
        elif r < 0.88 and cfg["files"]:
            tgh = g.pick(tgs)
            if saved_paths and rng.random() < 0.4:
                path = g.pick(saved_paths)
            else:
                fileno[0] += 1
                path = f"/simfs/c13_{fileno[0]}.TextGrid"
                if rng.random() < 0.15:
                    # a file name is a file name: '$' and '~' in it mean nothing (PYTHONHASHSEED is
                    # always set by the launcher, so an expanding save would hit another file)
                    path = f"/simfs/c13_{fileno[0]}_" + g.pick(["$PYTHONHASHSEED", "${PYTHONHASHSEED}x", "~x"]) + ".TextGrid"
            if cfg["xio"] and rng.random() < 0.5:
                run.do({"op": "env.fault", "a": ["enospc", rng.randrange(0, 400)]})
                o = run.do({"op": "tg.save", "recv": tgh, "a": [path, g.pick(FORMATS), rng.random() < 0.5],
                            "k": {"reportingMode": "silence"}, "tag": "X-io"})
                run.do({"op": "env.unfault"})
            else:
                o = run.do({"op": "tg.save", "recv": tgh, "a": [path, g.pick(FORMATS), rng.random() < 0.5],
                            "k": {"reportingMode": "silence"}})
                if o is not None and o.ok and path not in saved_paths:
                    saved_paths.append(path)
        elif r < 0.94 and cfg["files"] and saved_paths:
            path = g.pick(saved_paths)
            if cfg["xio"] and rng.random() < 0.4:
                run.do({"op": "env.fault", "a": [g.pick(["eio_read", "eacces"]), rng.randrange(0, 200)]})
                run.do({"op": "openTextgrid", "a": [path, rng.random() < 0.5], "k": {"reportingMode": "silence"},
                        "out": w.new_handle(), "tag": "X-io"})
                run.do({"op": "env.unfault"})
            else:
                run.do({"op": "openTextgrid", "a": [path, rng.random() < 0.5], "k": {"reportingMode": "silence"},
                        "out": w.new_handle()})
        else:
            if rng.random() < 0.7:
                mk_tier()
            else:
                mk_tg()
        # keep the heap small (the wide tier is pinned)
        lt = [x for x in w.live(TextgridTier) if x != wide]
        if len(lt) > 6:
            run.do({"op": "env.drop", "a": lt[: len(lt) - 6]})
        lg = w.live(Textgrid)
        if len(lg) > 3:
            run.do({"op": "env.drop", "a": lg[: len(lg) - 3]})
        catalogue_round()


def nontrivial(run):
    st = run.stats
    return run.n_ok_mut >= 3 and st.get("c13:failing_mutator_raised", 0) >= 1 and st.get("c13:probes", 0) >= 10
