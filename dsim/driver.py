"""CLI:  check run <PROP> --tier quick|thorough [--runs N] [--workers N]
          check replay <file>
          check selftest-determinism [--n N]

Exit codes: 0 held (only KNOWN-FINDINGs, if any); 1 VIOLATION printed;
2 harness error (worker died, timeout, unreproducible replay, import from the
wrong tree, determinism mismatch) -- a crash or timeout can never read as "held".
"""
import argparse
import faulthandler
import json
import os
import subprocess
import sys
import time
import traceback
from collections import Counter
from concurrent.futures import ProcessPoolExecutor, as_completed
import multiprocessing

from .bootstrap import HarnessError, REPO, VERIF

sys.dont_write_bytecode = True

MAX_SIGS_PER_CHUNK = 12


# ----------------------------------------------------------------------------- worker
def _chunk(prop, seed, tier, lo, hi, wall):
    faulthandler.dump_traceback_later(wall, exit=True)
    from . import runner

    stats = Counter()
    fps = set()
    nontriv = set()
    viols = {}
    samples = []
    steps_total = 0
    for idx in range(lo, hi):
        res = runner.generate(prop, seed, tier, idx)
        stats.update(res.stats)
        steps_total += res.executed
        fp = int(res.fingerprint[:16], 16)
        fps.add(fp)
        if res.nontrivial:
            nontriv.add(fp)
        if res.violation is not None:
            sig = res.violation["signature"]
            cur = viols.get(sig)
            if cur is None and len(viols) >= MAX_SIGS_PER_CHUNK:
                continue
            if cur is None or len(res.steps) < len(cur["steps"]):
                viols[sig] = {"signature": sig, "detail": res.violation["detail"], "cfg": res.cfg,
                              "steps": res.steps, "run_index": idx, "count": (cur or {}).get("count", 0) + 1}
            else:
                cur["count"] += 1
        elif len(samples) < 2 and res.nontrivial:
            samples.append({"run_index": idx, "config": res.cfg, "steps": res.steps[:40]})
    faulthandler.cancel_dump_traceback_later()
    return {"stats": stats, "fps": fps, "nontriv": nontriv, "viols": viols, "samples": samples,
            "runs": hi - lo, "steps": steps_total}


# ----------------------------------------------------------------------------- known findings
def load_known():
    """known: property=<id> signature=<sig> [replay=<file under /verif>] <text>
                                      -> suppresses exactly that signature (KNOWN-FINDING, exit 0)
       fixed: property=<id> <commit> <text>   -> suppresses nothing"""
    known = {}
    path = os.path.join(VERIF, "KNOWN_FINDINGS.txt")
    if not os.path.exists(path):
        return known
    for line in open(path, encoding="utf-8"):
        line = line.strip()
        if not line.startswith("known:"):
            continue
        parts = line[len("known:"):].split()
        kv = {}
        rest = []
        for p in parts:
            k, _, v = p.partition("=")
            if not rest and k in ("property", "signature", "replay") and v:
                kv[k] = v
            else:
                rest.append(p)
        if "property" in kv and "signature" in kv:
            known[(kv["property"], kv["signature"])] = {"text": " ".join(rest), "replay": kv.get("replay")}
    return known


def directed_known(prop, known):
    """Replay the stored history of every listed finding of this property, so
    that a listed finding is reported on every run in which it still exists
    (sampling alone might not hit a rare one).  Returns {sig: reproduced?}."""
    out = {}
    for (p, sig), info in sorted(known.items()):
        if p != prop or not info.get("replay"):
            continue
        path = os.path.join(VERIF, info["replay"])
        if not os.path.exists(path):
            raise HarnessError(f"known finding {sig}: replay file {path} is missing")
        _, res, got = replay_file(path)
        out[sig] = (got == sig)
        if got is not None and got != sig:
            # the stored history now fails differently: that is a new violation, not the known one
            out[sig] = False
            out["__other__" + sig] = (got, path)
    return out


# ----------------------------------------------------------------------------- replay files
def write_replay(prop, seed, tier, v, steps, note):
    d = os.environ.get("VERIF_REPLAY_DIR") or os.path.join(VERIF, "replays")
    os.makedirs(d, exist_ok=True)
    safe = v["signature"].replace("/", "_").replace(" ", "")[:120]
    path = os.path.join(d, f"{prop}-{seed}-{v['run_index']}-{safe}.json")
    doc = {"property": prop, "verif_seed": seed, "tier": tier, "run_index": v["run_index"],
           "config": v["cfg"], "signature": v["signature"], "steps": steps,
           "observed": v["detail"], "minimisation": note,
           "how_to_replay": "./check replay " + path}
    with open(path, "w", encoding="utf-8") as f:
        json.dump(doc, f, indent=1, ensure_ascii=False)
        f.write("\n")
    return path


def replay_file(path, quiet=False):
    """Replays in THIS interpreter; returns (signature or None, trace)."""
    from . import runner

    doc = json.load(open(path, encoding="utf-8"))
    res = runner.replay(doc["property"], doc["config"], doc["steps"], trace=True)
    sig = res.violation["signature"] if res.violation else None
    return doc, res, sig


def replay_fresh(path):
    """Replay in a fresh interpreter (different hash seed) -> signature or None."""
    env = dict(os.environ)
    env["PYTHONHASHSEED"] = "12345"
    p = subprocess.run([sys.executable, "-m", "dsim", "replay", path, "--machine"],
                       cwd=VERIF, env=env, capture_output=True, text=True, timeout=300)
    for line in p.stdout.splitlines():
        if line.startswith("REPLAY-SIGNATURE "):
            s = line[len("REPLAY-SIGNATURE "):].strip()
            return None if s == "None" else s
    raise HarnessError(f"replay subprocess gave no signature (rc={p.returncode}): {p.stderr[-2000:]}")


# ----------------------------------------------------------------------------- run
def cmd_run(args):
    from . import registry, minimise

    prop, tier = args.prop, args.tier
    seed = int(os.environ.get("VERIF_SEED", "0"))
    workers = args.workers or min(16, os.cpu_count() or 1)
    runs = args.runs or registry.budget(prop, tier)
    level = registry.MANIFEST_CHECKS[prop]["level"]
    t0 = time.time()
    # praatio must come from the tree under test
    from .bootstrap import import_praatio

    import_praatio()
    chunk = max(50, min(4000, runs // (workers * 8) or 1))
    bounds = [(lo, min(runs, lo + chunk)) for lo in range(0, runs, chunk)]
    wall = int(os.environ.get("VERIF_CHUNK_WALL", "900"))
    agg = {"stats": Counter(), "fps": set(), "nontriv": set(), "viols": {}, "samples": [], "runs": 0, "steps": 0}
    ctx = multiprocessing.get_context("fork")
    with ProcessPoolExecutor(max_workers=workers, mp_context=ctx) as ex:
        futs = [ex.submit(_chunk, prop, seed, tier, lo, hi, wall) for lo, hi in bounds]
        for f in as_completed(futs):
            r = f.result()  # a dead worker raises BrokenProcessPool -> exit 2
            agg["stats"].update(r["stats"])
            agg["fps"] |= r["fps"]
            agg["nontriv"] |= r["nontriv"]
            agg["runs"] += r["runs"]
            agg["steps"] += r["steps"]
            if len(agg["samples"]) < 3:
                agg["samples"].extend(r["samples"][: 3 - len(agg["samples"])])
            for sig, v in r["viols"].items():
                cur = agg["viols"].get(sig)
                if cur is None or (len(v["steps"]), v["run_index"]) < (len(cur["steps"]), cur["run_index"]):
                    v["count"] += (cur or {}).get("count", 0)
                    agg["viols"][sig] = v
                else:
                    cur["count"] += v["count"]
    if agg["runs"] != runs:
        raise HarnessError(f"ran {agg['runs']} of {runs} runs")
    # determinism slice: re-execute a few run indices in this process and in a fresh one
    det = determinism_slice(prop, seed, tier, min(runs, 24 if tier == "quick" else 64))
    known = load_known()
    directed = directed_known(prop, known)
    new_viol = []
    known_seen = []
    for sig in sorted(agg["viols"]):
        v = agg["viols"][sig]
        if (prop, sig) in known:
            known_seen.append((sig, known[(prop, sig)]["text"], v["count"]))
            continue
        new_viol.append(v)
    for sig, rep in sorted(directed.items()):
        if sig.startswith("__other__"):
            got, path = rep
            doc = json.load(open(path, encoding="utf-8"))
            new_viol.append({"signature": got, "detail": {"from_known_replay": path}, "cfg": doc["config"],
                             "steps": doc["steps"], "run_index": -1, "count": 1})
        elif rep and not any(s == sig for s, _, _ in known_seen):
            known_seen.append((sig, known[(prop, sig)]["text"], 0))
    reported = []
    for v in new_viol[:8]:
        steps, note = minimise.minimise(prop, v["cfg"], v["steps"], v["signature"])
        if not note.get("reproduced"):
            raise HarnessError(f"violation {v['signature']} (run {v['run_index']}) did not reproduce in-process")
        path = write_replay(prop, seed, tier, v, steps, note)
        sig2 = replay_fresh(path)
        if sig2 != v["signature"]:
            raise HarnessError(f"replay of {path} in a fresh interpreter gave {sig2}, expected {v['signature']}")
        reported.append((v, path, len(steps)))
    wall_s = time.time() - t0
    write_evidence(prop, tier, seed, level, agg, runs, wall_s, det, known_seen, reported, new_viol, workers)
    for sig, text, count in known_seen:
        print(f"KNOWN-FINDING: property={prop} signature={sig} {text} (seen {count}x)")
    for v, path, n in reported:
        print(f"VIOLATION property={prop} replay={path}")
        print(f"  signature={v['signature']} occurrences={v['count']} minimised_steps={n}")
    if len(new_viol) > len(reported):
        print(f"  (+{len(new_viol) - len(reported)} further violation signatures not minimised)")
    print(f"{prop} {tier}: runs={runs} steps={agg['steps']} distinct={len(agg['fps'])} "
          f"nontrivial_distinct={len(agg['nontriv'])} violations={len(new_viol)} "
          f"known={len(known_seen)} wall={wall_s:.1f}s repo={REPO}")
    return 1 if new_viol else 0


def determinism_slice(prop, seed, tier, n):
    """Same run indices twice in-process and once in a fresh interpreter under
    another PYTHONHASHSEED; fingerprints must be identical."""
    from . import runner

    a = [runner.generate(prop, seed, tier, i).fingerprint for i in range(n)]
    b = [runner.generate(prop, seed, tier, i).fingerprint for i in range(n)]
    if a != b:
        raise HarnessError("determinism: same seed gave different fingerprints in one process")
    env = dict(os.environ)
    env["PYTHONHASHSEED"] = "987"
    p = subprocess.run([sys.executable, "-m", "dsim", "fingerprints", prop, tier, str(seed), str(n)],
                       cwd=VERIF, env=env, capture_output=True, text=True, timeout=600)
    c = [l for l in p.stdout.split() if len(l) == 64]
    if c != a:
        raise HarnessError(f"determinism: fresh interpreter disagrees (rc={p.returncode}) {p.stderr[-1000:]}")
    return {"runs_checked": n, "in_process_twice": "identical", "fresh_interpreter_other_hashseed": "identical"}


def cmd_fingerprints(args):
    from . import runner

    for i in range(args.n):
        print(runner.generate(args.prop, args.seed, args.tier, i).fingerprint)
    return 0


# ----------------------------------------------------------------------------- evidence
def write_evidence(prop, tier, seed, level, agg, runs, wall_s, det, known_seen, reported, new_viol, workers):
    st = agg["stats"]
    ops = {k[3:]: v for k, v in sorted(st.items()) if k.startswith("op:")}
    faults = {k[6:]: v for k, v in sorted(st.items()) if k.startswith("fault:")}
    probes = {k[6:]: v for k, v in sorted(st.items()) if k.startswith("probe:")}
    nonp = {k[15:]: v for k, v in sorted(st.items()) if k.startswith("nonpraatio_exc:")}
    extra = {k: v for k, v in sorted(st.items())
             if not k.startswith(("op:", "fault:", "probe:", "nonpraatio_exc:"))}
    from . import registry

    sc = registry.scenario(prop)
    cov = {
        "evaluations": runs,
        "distinct_nontrivial": len(agg["nontriv"]),
        "rule": getattr(sc, "RULE", "") or (
            "one evaluation = one seeded history (run). distinct = distinct SHA-256 run fingerprints over the "
            "event log (config, every step with outcome and post-state of touched objects, final heap and files); "
            "non-trivial = the scenario's nontrivial() predicate (>= 3 successful state-changing steps; see module)."),
        "samples": agg["samples"],
        "distinct_runs": len(agg["fps"]),
        "steps": agg["steps"],
        "runs_per_hour": int(runs / wall_s * 3600) if wall_s > 0 else 0,
        "steps_per_s": int(agg["steps"] / wall_s) if wall_s > 0 else 0,
        "workers": workers,
        "simulated_time": f"none - the code under test reads no clock; logical steps = {agg['steps']}",
        "ops": ops,
        "faults_fired": faults,
        "probes": probes,
        "non_praatio_exceptions": nonp,
        "scenario_counters": extra,
        "determinism_slice": det,
        "real_vs_stub": {
            "real": ["every executed line of praatio (imported from " + REPO + ")", "wave", "codecs",
                     "io.TextIOWrapper", "io.Buffered*", "json", "struct", "copy"],
            "stub": ["raw file layer + directory table (dsim/simfs.py SimFS/SimRaw)", "sys.stdout (counting sink)"],
        },
        "known_findings_seen": [{"signature": s, "text": t, "count": c} for s, t, c in known_seen],
        "violation_signatures": [{"signature": v["signature"], "count": v["count"]} for v in new_viol],
        "replays": [p for _, p, _ in reported],
        "exhaustive": False,
    }
    doc = {
        "property_id": prop, "tier": tier, "seed": seed, "level": level, "coverage": cov,
        "assumptions": getattr(sc, "ASSUMPTIONS", []),
        "wall_s": round(wall_s, 2), "violations": len(new_viol),
    }
    d = os.environ.get("VERIF_EVIDENCE_DIR") or os.path.join(VERIF, "evidence")
    os.makedirs(d, exist_ok=True)
    tmp = os.path.join(d, f".{prop}.json.tmp")
    with open(tmp, "w", encoding="utf-8") as f:
        json.dump(doc, f, indent=1, ensure_ascii=False, default=repr)
        f.write("\n")
    os.replace(tmp, os.path.join(d, f"{prop}.json"))


# ----------------------------------------------------------------------------- replay cmd
def cmd_replay(args):
    doc, res, sig = replay_file(args.path)
    if args.machine:
        print(f"REPLAY-SIGNATURE {sig}")
        return 0
    print(f"replay {args.path}")
    print(f" property={doc['property']} recorded_signature={doc['signature']}")
    print(f" config={json.dumps(doc['config'], sort_keys=True)}")
    for line in res.trace or []:
        print(line)
    if sig is None:
        print(" -> no violation on this tree (the recorded violation does not reproduce here)")
        return 0
    print(f" -> {sig}")
    print(f"    {json.dumps(res.violation['detail'], ensure_ascii=False, default=repr)[:3000]}")
    print(f"VIOLATION property={doc['property']} replay={args.path}")
    return 1 if sig == doc["signature"] else 2


def main(argv=None):
    ap = argparse.ArgumentParser(prog="check")
    sub = ap.add_subparsers(dest="cmd", required=True)
    r = sub.add_parser("run")
    r.add_argument("prop")
    r.add_argument("--tier", default=os.environ.get("VERIF_TIER", "quick"), choices=["quick", "thorough"])
    r.add_argument("--runs", type=int)
    r.add_argument("--workers", type=int)
    p = sub.add_parser("replay")
    p.add_argument("path")
    p.add_argument("--machine", action="store_true")
    f = sub.add_parser("fingerprints")
    f.add_argument("prop")
    f.add_argument("tier")
    f.add_argument("seed", type=int)
    f.add_argument("n", type=int)
    args = ap.parse_args(argv)
    try:
        if args.cmd == "run":
            return cmd_run(args)
        if args.cmd == "replay":
            return cmd_replay(args)
        if args.cmd == "fingerprints":
            return cmd_fingerprints(args)
    except HarnessError as e:
        print(f"HARNESS-ERROR: {e}", file=sys.stderr)
        return 2
    except BaseException:  # noqa: BLE001 - anything unexpected is exit 2, never 0/1
        traceback.print_exc()
        return 2
    return 2


if __name__ == "__main__":
    sys.exit(main())
