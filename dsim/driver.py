"""CLI:  check run <PROP> --tier quick|thorough [--runs N] [--workers N]
          check replay <file>
          check selftest-determinism [--n N]

Exit codes: 0 held (only KNOWN-FINDINGs, if any); 1 VIOLATION printed;
2 harness error (worker died, timeout, unreproducible replay, import from the
wrong tree, determinism mismatch) -- a crash or timeout can never read as "held".
"""
import argparse
import faulthandler
import json
import os
import subprocess
import sys
import time
import traceback
from collections import Counter
from concurrent.futures import ProcessPoolExecutor, as_completed
import multiprocessing

from .bootstrap import HarnessError, REPO, VERIF

sys.dont_write_bytecode = True

MAX_SIGS_PER_CHUNK = 12
STATES_CAP_PER_CHUNK = 200_000
STATES_CAP_TOTAL = 4_000_000


# ----------------------------------------------------------------------------- worker
def _chunk(prop, seed, tier, lo, hi, wall):
    faulthandler.dump_traceback_later(wall, exit=True)
    from . import runner

    stats = Counter()
    fps = set()
    states = set()
    nontriv = set()
    viols = {}
    samples = []
    steps_total = 0
    for idx in range(lo, hi):
        res = runner.generate(prop, seed, tier, idx)
        stats.update(res.stats)
        steps_total += res.executed
        fp = int(res.fingerprint[:16], 16)
        fps.add(fp)
        if len(states) < STATES_CAP_PER_CHUNK:
            states |= res.states
        if res.nontrivial:
            nontriv.add(fp)
        if res.violation is not None:
            sig = res.violation["signature"]
            cur = viols.get(sig)
            if cur is None and len(viols) >= MAX_SIGS_PER_CHUNK:
                continue
            if cur is None or len(res.steps) < len(cur["steps"]):
                viols[sig] = {"signature": sig, "detail": res.violation["detail"], "cfg": res.cfg,
                              "steps": res.steps, "run_index": idx, "count": (cur or {}).get("count", 0) + 1}
            else:
                cur["count"] += 1
        elif len(samples) < 2 and (res.nontrivial or idx == lo):
            samples.append({"run_index": idx, "config": res.cfg, "steps": res.steps[:40],
                            "nontrivial": bool(res.nontrivial), "steps_total": len(res.steps)})
    faulthandler.cancel_dump_traceback_later()
    return {"stats": stats, "fps": fps, "nontriv": nontriv, "states": states, "viols": viols, "samples": samples,
            "runs": hi - lo, "steps": steps_total}


# ----------------------------------------------------------------------------- known findings
def load_known():
    """known: property=<id> signature=<sig> [replay=<file under /verif>] <text>
                                      -> suppresses exactly that signature (KNOWN-FINDING, exit 0)
       fixed: property=<id> <commit> <text>   -> suppresses nothing"""
    known = {}
    path = os.path.join(VERIF, "KNOWN_FINDINGS.txt")
    if not os.path.exists(path) or os.environ.get("VERIF_IGNORE_KNOWN") == "1":  # debugging aid only
        return known
    for line in open(path, encoding="utf-8"):
        line = line.strip()
        if not line.startswith("known:"):
            continue
        parts = line[len("known:"):].split()
        kv = {}
        rest = []
        for p in parts:
            k, _, v = p.partition("=")
            if not rest and k in ("property", "signature", "replay") and v:
                kv[k] = v
            else:
                rest.append(p)
        if "property" in kv and "signature" in kv:
            known[(kv["property"], kv["signature"])] = {"text": " ".join(rest), "replay": kv.get("replay")}
    return known


def directed_known(prop, known):
    """Replay the stored history of every listed finding of this property, so
    that a listed finding is reported on every run in which it still exists
    (sampling alone might not hit a rare one).  Returns {sig: reproduced?}."""
    out = {}
    for (p, sig), info in sorted(known.items()):
        if p != prop or not info.get("replay"):
            continue
        path = os.path.join(VERIF, info["replay"])
        if not os.path.exists(path):
            raise HarnessError(f"known finding {sig}: replay file {path} is missing")
        _, res, got = replay_file(path)
        out[sig] = (got == sig)
        if got is not None and got != sig:
            # the stored history now fails differently: that is a new violation, not the known one
            out[sig] = False
            out["__other__" + sig] = (got, path)
    return out


# ----------------------------------------------------------------------------- replay files
def write_replay(prop, seed, tier, v, steps, note):
    d = os.environ.get("VERIF_REPLAY_DIR") or os.path.join(VERIF, "replays")
    os.makedirs(d, exist_ok=True)
    safe = v["signature"].replace("/", "_").replace(" ", "")[:120]
    path = os.path.join(d, f"{prop}-{seed}-{v['run_index']}-{safe}.json")
    doc = {"property": prop, "verif_seed": seed, "tier": tier, "run_index": v["run_index"],
           "config": v["cfg"], "signature": v["signature"], "steps": steps,
           "observed": v["detail"], "minimisation": note,
           "how_to_replay": "./check replay " + path}
    with open(path, "w", encoding="utf-8") as f:
        json.dump(doc, f, indent=1, ensure_ascii=False)
        f.write("\n")
    return path


def replay_file(path, quiet=False):
    """Replays in THIS interpreter; returns (signature or None, trace)."""
    from . import runner

    doc = json.load(open(path, encoding="utf-8"))
    res = runner.replay(doc["property"], doc["config"], doc["steps"], trace=True)
    sig = res.violation["signature"] if res.violation else None
    return doc, res, sig


def replay_fresh(path):
    """Replay in a fresh interpreter (different hash seed) -> signature or None."""
    env = dict(os.environ)
    env["PYTHONHASHSEED"] = "12345"
    p = subprocess.run([sys.executable, "-m", "dsim", "replay", path, "--machine"],
                       cwd=VERIF, env=env, capture_output=True, text=True, timeout=300)
    for line in p.stdout.splitlines():
        if line.startswith("REPLAY-SIGNATURE "):
            s = line[len("REPLAY-SIGNATURE "):].strip()
            return None if s == "None" else s
    raise HarnessError(f"replay subprocess gave no signature (rc={p.returncode}): {p.stderr[-2000:]}")


# ----------------------------------------------------------------------------- run
def cmd_run(args):
    from . import registry, minimise

    prop, tier = args.prop, args.tier
    seed = int(os.environ.get("VERIF_SEED", "0"))
    workers = args.workers or min(16, os.cpu_count() or 1)
    runs = args.runs or registry.budget(prop, tier)
    level = registry.MANIFEST_CHECKS[prop]["level"]
    t0 = time.time()
    # praatio must come from the tree under test
    from .bootstrap import import_praatio

    import_praatio()
    chunk = max(50, min(4000, runs // (workers * 8) or 1))
    bounds = [(lo, min(runs, lo + chunk)) for lo in range(0, runs, chunk)]
    # a worker stuck in one chunk (an endless loop in the tree under test) is killed by faulthandler:
    # the pool breaks and the check exits 2 - never 0
    wall = int(os.environ.get("VERIF_CHUNK_WALL", "300" if tier == "quick" else "1200"))
    agg = {"stats": Counter(), "fps": set(), "nontriv": set(), "states": set(), "viols": {}, "samples": [],
           "runs": 0, "steps": 0}
    ctx = multiprocessing.get_context("fork")
    with ProcessPoolExecutor(max_workers=workers, mp_context=ctx) as ex:
        futs = [ex.submit(_chunk, prop, seed, tier, lo, hi, wall) for lo, hi in bounds]
        for f in as_completed(futs):
            r = f.result()  # a dead worker raises BrokenProcessPool -> exit 2
            agg["stats"].update(r["stats"])
            agg["fps"] |= r["fps"]
            agg["nontriv"] |= r["nontriv"]
            if len(agg["states"]) < STATES_CAP_TOTAL:
                agg["states"] |= r["states"]
            agg["runs"] += r["runs"]
            agg["steps"] += r["steps"]
            if len(agg["samples"]) < 3:
                agg["samples"].extend(r["samples"][: 3 - len(agg["samples"])])
            for sig, v in r["viols"].items():
                cur = agg["viols"].get(sig)
                if cur is None or (len(v["steps"]), v["run_index"]) < (len(cur["steps"]), cur["run_index"]):
                    v["count"] += (cur or {}).get("count", 0)
                    agg["viols"][sig] = v
                else:
                    cur["count"] += v["count"]
    if agg["runs"] != runs:
        raise HarnessError(f"ran {agg['runs']} of {runs} runs")
    # determinism slice: re-execute a few run indices in this process and in a fresh one
    heavy = prop == "C13"
    slice_error = None
    known = load_known()
    try:
        det, fid = _slices(prop, seed, tier, runs, workers, heavy)
    except HarnessError as e:
        if not [sig for sig in agg["viols"] if (prop, sig) not in known]:
            raise
        # violations were found: report them (exit 1); the self-test failure is recorded, not hidden
        slice_error = str(e)
        det = {"error": slice_error}
        fid = {"error": slice_error}
    directed = directed_known(prop, known)
    return _report(prop, tier, seed, level, agg, runs, t0, det, fid, known, directed, workers, slice_error)


def _slices(prop, seed, tier, runs, workers, heavy):
    det = determinism_slice(prop, seed, tier, min(runs, (24 if tier == "quick" else 64) if not heavy
                                                 else (16 if tier == "quick" else 32)), workers)
    fid = fidelity_slice(prop, seed, tier, min(runs, (16 if tier == "quick" else 200) if not heavy
                                               else (8 if tier == "quick" else 32)), workers) \
        if prop in ("C05", "C13", "C16") else {"runs_compared": 0, "note": "scenario does no file I/O"}
    return det, fid


def _report(prop, tier, seed, level, agg, runs, t0, det, fid, known, directed, workers, slice_error):
    from . import minimise

    new_viol = []
    known_seen = []
    for sig in sorted(agg["viols"]):
        v = agg["viols"][sig]
        if (prop, sig) in known:
            known_seen.append((sig, known[(prop, sig)]["text"], v["count"]))
            continue
        new_viol.append(v)
    for sig, rep in sorted(directed.items()):
        if sig.startswith("__other__"):
            got, path = rep
            doc = json.load(open(path, encoding="utf-8"))
            new_viol.append({"signature": got, "detail": {"from_known_replay": path}, "cfg": doc["config"],
                             "steps": doc["steps"], "run_index": -1, "count": 1})
        elif rep and not any(s == sig for s, _, _ in known_seen):
            known_seen.append((sig, known[(prop, sig)]["text"], 0))
    reported = []
    for v in new_viol[:8]:
        steps, note = minimise.minimise(prop, v["cfg"], v["steps"], v["signature"])
        if not note.get("reproduced"):
            raise HarnessError(f"violation {v['signature']} (run {v['run_index']}) did not reproduce in-process")
        path = write_replay(prop, seed, tier, v, steps, note)
        sig2 = replay_fresh(path)
        if sig2 != v["signature"]:
            raise HarnessError(f"replay of {path} in a fresh interpreter gave {sig2}, expected {v['signature']}")
        reported.append((v, path, len(steps)))
    wall_s = time.time() - t0
    write_evidence(prop, tier, seed, level, agg, runs, wall_s, det, known_seen, reported, new_viol, workers, fid)
    for sig, text, count in known_seen:
        print(f"KNOWN-FINDING: property={prop} signature={sig} {text} (seen {count}x)")
    for v, path, n in reported:
        print(f"VIOLATION property={prop} replay={path}")
        print(f"  signature={v['signature']} occurrences={v['count']} minimised_steps={n}")
    if len(new_viol) > len(reported):
        print(f"  (+{len(new_viol) - len(reported)} further violation signatures not minimised)")
    if slice_error:
        print(f"  note: self-test slice failed on this (violating) tree: {slice_error}")
    print(f"{prop} {tier}: runs={runs} steps={agg['steps']} distinct={len(agg['fps'])} "
          f"nontrivial_distinct={len(agg['nontriv'])} violations={len(new_viol)} "
          f"known={len(known_seen)} wall={wall_s:.1f}s repo={REPO}")
    return 1 if new_viol else 0


def _twice(prop, seed, tier, lo, hi):
    from . import runner

    a = [runner.generate(prop, seed, tier, i).fingerprint for i in range(lo, hi)]
    b = [runner.generate(prop, seed, tier, i).fingerprint for i in range(lo, hi)]
    return a, b


def determinism_slice(prop, seed, tier, n, workers=8):
    """Same run indices twice within one process (each worker process executes its
    indices twice) and once in fresh interpreters under another PYTHONHASHSEED;
    all fingerprints must be identical."""
    ctx = multiprocessing.get_context("fork")
    step = max(1, -(-n // workers))
    ranges = [(lo, min(n, lo + step)) for lo in range(0, n, step)]
    with ProcessPoolExecutor(max_workers=workers, mp_context=ctx) as ex:
        parts = [f.result() for f in [ex.submit(_twice, prop, seed, tier, lo, hi) for lo, hi in ranges]]
    a = [x for p in parts for x in p[0]]
    b = [x for p in parts for x in p[1]]
    if a != b:
        raise HarnessError("determinism: same seed gave different fingerprints in one process")
    env = dict(os.environ)
    env["PYTHONHASHSEED"] = "987"
    procs = [subprocess.Popen([sys.executable, "-m", "dsim", "fingerprints", prop, tier, str(seed), str(hi),
                               "--lo", str(lo)], cwd=VERIF, env=env, stdout=subprocess.PIPE,
                              stderr=subprocess.PIPE, text=True) for lo, hi in ranges]
    c = []
    err = ""
    for pr in procs:
        o, e = pr.communicate(timeout=1800)
        c.extend(l for l in o.split() if len(l) == 64)
        err += e[-300:]
    if c != a:
        raise HarnessError(f"determinism: fresh interpreter disagrees {err[-800:]}")
    return {"runs_checked": n, "in_process_twice": "identical", "fresh_interpreter_other_hashseed": "identical"}


def fidelity_slice(prop, seed, tier, n, workers=8):
    """Stub fidelity (DESIGN s3.8): the same runs on SimFS and on a real scratch
    directory must have identical fingerprints (which cover every step outcome,
    every object state and the final bytes of every file)."""
    ctx = multiprocessing.get_context("fork")
    step = max(1, -(-n // workers))
    with ProcessPoolExecutor(max_workers=workers, mp_context=ctx) as ex:
        parts = [f.result() for f in [ex.submit(_fid_range, prop, seed, tier, lo, min(n, lo + step))
                                      for lo in range(0, n, step)]]
    return {"runs_compared": sum(p[0] for p in parts), "runs_with_file_io": sum(p[1] for p in parts),
            "result": "identical fingerprints"}


def _fid_range(prop, seed, tier, lo, hi):
    import shutil
    import tempfile
    from . import runner, simfs

    over = {"xio": False}
    n = f = 0
    for i in range(lo, hi):
        a = runner.generate(prop, seed, tier, i, cfg_override=over)
        root = tempfile.mkdtemp(prefix="dsim_realfs_")
        try:
            b = runner.generate(prop, seed, tier, i, fs=simfs.RealFS(root), cfg_override=over)
        finally:
            shutil.rmtree(root, ignore_errors=True)
        if a.violation is not None or b.violation is not None:
            continue  # a violating run stops early and is reported by the main batch; RealFS has no event trace
        if a.fingerprint != b.fingerprint:
            raise HarnessError(f"stub fidelity: run {i} of {prop} differs between SimFS and a real directory")
        n += 1
        f += 1 if a.stats.get("fs_opens", 0) else 0
    return n, f


def cmd_fingerprints(args):
    from . import runner

    for i in range(args.lo, args.n):
        print(runner.generate(args.prop, args.seed, args.tier, i).fingerprint)
    return 0


def _fp_range(prop, seed, tier, lo, hi):
    from . import runner

    return [runner.generate(prop, seed, tier, i).fingerprint for i in range(lo, hi)]


def cmd_selftest_determinism(args):
    """DESIGN s7: N run indices per property executed (a) twice in this process,
    (b) in fresh interpreters under PYTHONHASHSEED=0, =1 and random, (c) through
    process pools of 1, 4 and 16 workers; every fingerprint list must be equal."""
    import hashlib
    from . import registry

    seed = int(os.environ.get("VERIF_SEED", "0"))
    report = {"seed": seed, "n_per_property": args.n, "tier": args.tier, "properties": {}}
    ok = True
    ctx = multiprocessing.get_context("fork")
    for prop in sorted(registry.TABLE):
        n = args.n if prop != "C13" else max(50, args.n // 10)
        t0 = time.time()
        base = _fp_range(prop, seed, args.tier, 0, n)
        again = _fp_range(prop, seed, args.tier, 0, n)
        res = {"n": n, "in_process_twice": base == again}
        for hs in ("0", "1", "random"):
            env = dict(os.environ, PYTHONHASHSEED=hs)
            outs = []
            procs = []
            step = max(1, n // 8)
            for lo in range(0, n, step):
                procs.append(subprocess.Popen(
                    [sys.executable, "-m", "dsim", "fingerprints", prop, args.tier, str(seed),
                     str(min(n, lo + step)), "--lo", str(lo)],
                    cwd=VERIF, env=env, stdout=subprocess.PIPE, text=True))
            for pr in procs:
                o, _ = pr.communicate(timeout=1800)
                outs.extend(l for l in o.split() if len(l) == 64)
            res["fresh_interpreter_hashseed_" + hs] = outs == base
        for wk in (1, 4, 16):
            step = max(1, n // (wk * 3))
            with ProcessPoolExecutor(max_workers=wk, mp_context=ctx) as ex:
                futs = [ex.submit(_fp_range, prop, seed, args.tier, lo, min(n, lo + step)) for lo in range(0, n, step)]
                got = [fp for f in futs for fp in f.result()]
            res[f"pool_{wk}_workers"] = got == base
        res["digest"] = hashlib.sha256("".join(base).encode()).hexdigest()
        res["distinct"] = len(set(base))
        res["wall_s"] = round(time.time() - t0, 1)
        report["properties"][prop] = res
        good = all(v for k, v in res.items() if isinstance(v, bool))
        ok = ok and good
        print(f"{prop}: {'identical' if good else 'MISMATCH'} {res}")
    d = os.path.join(VERIF, "selftests")
    os.makedirs(d, exist_ok=True)
    with open(os.path.join(d, "determinism.json"), "w") as f:
        json.dump(report, f, indent=1)
    return 0 if ok else 2


# ----------------------------------------------------------------------------- evidence
def write_evidence(prop, tier, seed, level, agg, runs, wall_s, det, known_seen, reported, new_viol, workers, fid=None):
    st = agg["stats"]
    ops = {k[3:]: v for k, v in sorted(st.items()) if k.startswith("op:")}
    faults = {k[6:]: v for k, v in sorted(st.items()) if k.startswith("fault:")}
    probes = {k[6:]: v for k, v in sorted(st.items()) if k.startswith("probe:")}
    nonp = {k[15:]: v for k, v in sorted(st.items()) if k.startswith("nonpraatio_exc:")}
    extra = {k: v for k, v in sorted(st.items())
             if not k.startswith(("op:", "fault:", "probe:", "nonpraatio_exc:"))}
    from . import registry

    sc = registry.scenario(prop)
    # C12: (abstract state = tuple of tier names, op, outcome) coverage table -> summary
    triples = {k: v for k, v in extra.items() if k.startswith("c12:(")}
    if triples:
        for k in triples:
            del extra[k]
        states = {k.split(":")[1] for k in triples}
        in_universe = {s for s in states if "zz" not in s}
        extra["c12_abstract_states_reached"] = len(states)
        extra["c12_abstract_states_reached_within_4_names"] = len(in_universe)
        extra["c12_abstract_states_possible_within_4_names"] = 65
        extra["c12_state_op_outcome_triples_reached"] = len(triples)
        extra["c12_rarest_triples"] = dict(sorted(triples.items(), key=lambda kv: (kv[1], kv[0]))[:12])
    cov = {
        "evaluations": runs,
        "distinct_nontrivial": len(agg["nontriv"]),
        "rule": getattr(sc, "RULE", "") or (
            "one evaluation = one seeded history (run). distinct = distinct SHA-256 run fingerprints over the "
            "event log (config, every step with outcome and post-state of touched objects, final heap and files); "
            "non-trivial = the scenario's nontrivial() predicate (>= 3 successful state-changing steps; see module)."),
        "samples": agg["samples"],
        "distinct_runs": len(agg["fps"]),
        "distinct_object_states": len(agg["states"]),
        "distinct_object_states_note": "distinct observations (class, name, typed entries, span / tier map / sample bytes) of "
                                       "objects created or mutated by a step; counting stops at %d" % STATES_CAP_TOTAL,
        "steps": agg["steps"],
        "runs_per_hour": int(runs / wall_s * 3600) if wall_s > 0 else 0,
        "steps_per_s": int(agg["steps"] / wall_s) if wall_s > 0 else 0,
        "workers": workers,
        "simulated_time": f"none - the code under test reads no clock; logical steps = {agg['steps']}",
        "ops": ops,
        "faults_fired": faults,
        "probes": probes,
        "non_praatio_exceptions": nonp,
        "scenario_counters": extra,
        "determinism_slice": det,
        "stub_fidelity_slice": fid,
        "real_vs_stub": {
            "real": ["every executed line of praatio (imported from " + REPO + ")", "wave", "codecs",
                     "io.TextIOWrapper", "io.Buffered*", "json", "struct", "copy"],
            "stub": ["raw file layer + directory table (dsim/simfs.py SimFS/SimRaw)", "sys.stdout (counting sink)"],
        },
        "known_findings_seen": [{"signature": s, "text": t, "count": c} for s, t, c in known_seen],
        "violation_signatures": [{"signature": v["signature"], "count": v["count"]} for v in new_viol],
        "replays": [p for _, p, _ in reported],
        "exhaustive": False,
    }
    doc = {
        "property_id": prop, "tier": tier, "seed": seed, "level": level, "coverage": cov,
        "assumptions": getattr(sc, "ASSUMPTIONS", []),
        "wall_s": round(wall_s, 2), "violations": len(new_viol),
    }
    d = os.environ.get("VERIF_EVIDENCE_DIR") or os.path.join(VERIF, "evidence")
    os.makedirs(d, exist_ok=True)
    tmp = os.path.join(d, f".{prop}.json.tmp")
    with open(tmp, "w", encoding="utf-8") as f:
        json.dump(doc, f, indent=1, ensure_ascii=False, default=repr)
        f.write("\n")
    os.replace(tmp, os.path.join(d, f"{prop}.json"))


# ----------------------------------------------------------------------------- replay cmd
def cmd_replay(args):
    doc, res, sig = replay_file(args.path)
    if args.machine:
        print(f"REPLAY-SIGNATURE {sig}")
        return 0
    print(f"replay {args.path}")
    print(f" property={doc['property']} recorded_signature={doc['signature']}")
    print(f" config={json.dumps(doc['config'], sort_keys=True)}")
    for line in res.trace or []:
        print(line)
    if sig is None:
        print(" -> no violation on this tree (the recorded violation does not reproduce here)")
        return 0
    print(f" -> {sig}")
    print(f"    {json.dumps(res.violation['detail'], ensure_ascii=False, default=repr)[:3000]}")
    print(f"VIOLATION property={doc['property']} replay={args.path}")
    return 1 if sig == doc["signature"] else 2


def main(argv=None):
    ap = argparse.ArgumentParser(prog="check")
    sub = ap.add_subparsers(dest="cmd", required=True)
    r = sub.add_parser("run")
    r.add_argument("prop")
    r.add_argument("--tier", default=os.environ.get("VERIF_TIER", "quick"), choices=["quick", "thorough"])
    r.add_argument("--runs", type=int)
    r.add_argument("--workers", type=int)
    p = sub.add_parser("replay")
    p.add_argument("path")
    p.add_argument("--machine", action="store_true")
    f = sub.add_parser("fingerprints")
    f.add_argument("prop")
    f.add_argument("tier")
    f.add_argument("seed", type=int)
    f.add_argument("n", type=int)
    f.add_argument("--lo", type=int, default=0)
    sf = sub.add_parser("selftest-fidelity")
    sf.add_argument("--n", type=int, default=1500)
    sf.add_argument("--tier", default="quick")
    sd = sub.add_parser("selftest-determinism")
    sd.add_argument("--n", type=int, default=5000)
    sd.add_argument("--tier", default="quick")
    args = ap.parse_args(argv)
    try:
        if args.cmd == "run":
            return cmd_run(args)
        if args.cmd == "replay":
            return cmd_replay(args)
        if args.cmd == "fingerprints":
            return cmd_fingerprints(args)
        if args.cmd == "selftest-fidelity":
            seed = int(os.environ.get("VERIF_SEED", "0"))
            rep = {}
            ctx = multiprocessing.get_context("fork")
            for prop in ("C05", "C13", "C16"):
                n = args.n if prop != "C13" else max(40, args.n // 10)
                step = max(1, n // 16)
                # each worker compares its own index range (fidelity_slice starts at 0; use offsets through VERIF_SEED-free ranges)
                with ProcessPoolExecutor(max_workers=16, mp_context=ctx) as ex:
                    futs = [ex.submit(_fid_range, prop, seed, args.tier, lo, min(n, lo + step)) for lo in range(0, n, step)]
                    parts = [f.result() for f in futs]
                rep[prop] = {"runs_compared": sum(p[0] for p in parts), "runs_with_file_io": sum(p[1] for p in parts),
                             "result": "identical fingerprints"}
                print(prop, rep[prop])
            os.makedirs(os.path.join(VERIF, "selftests"), exist_ok=True)
            json.dump(rep, open(os.path.join(VERIF, "selftests", "fidelity.json"), "w"), indent=1)
            return 0
        if args.cmd == "selftest-determinism":
            return cmd_selftest_determinism(args)
    except HarnessError as e:
        print(f"HARNESS-ERROR: {e}", file=sys.stderr)
        return 2
    except BaseException:  # noqa: BLE001 - anything unexpected is exit 2, never 0/1
        traceback.print_exc()
        return 2
    return 2


if __name__ == "__main__":
    sys.exit(main())
