"""Seeded generators: times, labels, entries, and concrete steps.

Everything random comes from the one ``random.Random`` handed in (DESIGN s3.1).
Generators may look at the live world (to aim at existing boundaries, to pick a
collision category) but never at clocks, ids or unordered containers.
"""
import math

from .world import IntervalTier, PointTier, Textgrid, TextgridTier, audio

GRID = 8  # grid regime: multiples of 1/8 in [0, 16]
GRID_MAX = 16

LABELSETS = {
    "plain": ["a", "b", "c"],
    "punct": ["a b", "a-b", "x(y)", "p,q", "a", "b", "100%", "%s", "{0}", "a\\b"],
    "empty": ["", "a", "b", ""],
    "padded": [" a", "b ", " c ", "\ta", "a", "b\n", "  ", "\xa0a", "b\u2003", "\r c", "a\x0b"],
    "unicode": ["é", "日本", "ß", "a", "ö-b", "e\u0301", "\u212b", "\U0001f600a", "\uffffz", "\U00010330"],
    "numeric": ["9", "10", "2", "100", "1.5", "-3", "1e3"],
}
NAMES = ["a", "b", "c", "d"]
NAMESETS = {
    "abcd": NAMES,
    "prefix": ["a", "ab", "abc", "a_2"],
    "odd": ["", "a ", "A", "a"],
    "unicode": ["é", "日本", "ß", "a"],
    "many": ["t%d" % i for i in range(10)],
    "braces": ["a{0}", "{x}", "b}", "%s"],
    "nfc": ["caf\u00e9", "cafe\u0301", "a", "\u212b"],
    "glob": ["a*", "a[1]", "?", "ab"],
}

CROP_MODES = ["strict", "lax", "truncated"]
ERASE_MODES = ["truncate", "categorical", "error"]
SPACE_MODES = ["stretch", "split", "no_change", "error"]
INS_MODES = ["error", "replace", "merge"]
REPORT = ["silence", "warning", "error"]
FORMATS = ["short_textgrid", "long_textgrid", "json", "textgrid_json"]
BAD_OPTION = "bogus"


def H(h):
    return {"$h": h}


class G:
    def __init__(self, rng, cfg):
        self.rng = rng
        self.cfg = cfg
        self.regime = cfg.get("regime", "grid")
        self.labels = LABELSETS[cfg.get("labels", "plain")]
        self.names = NAMESETS[cfg.get("names", "abcd")]
        self.grid_max = GRID_MAX if cfg.get("maxn", 8) <= 40 else 16 * GRID_MAX
        self.deleted = []  # entries recently deleted through step_delete (for "resurrecting" inserts)

    # ------------------------------------------------------------- scalars
    def chance(self, p):
        return self.rng.random() < p

    def pick(self, seq):
        return seq[self.rng.randrange(len(seq))]

    def label(self):
        return self.pick(self.labels)

    def name(self):
        return self.pick(self.names)

    def raw_time(self):
        r = self.rng
        if self.regime == "extreme":
            # magnitudes far apart: sub-nanosecond dyadics next to values around 1e9 / 2**40
            k = r.random()
            if k < 0.35:
                return r.randrange(0, 64) * 2.0 ** -30 + self.pick([0.0, 0.25, 1.0])
            if k < 0.6:
                return self.pick([1e9, 2.0 ** 40, 1e12, 123456789.125]) + r.randrange(0, 16) / 8
            if k < 0.7:
                return self.pick([1e-7, 3e-7, 1e-9, 5e-324, 2.0 ** -40])
            return r.randrange(0, 129) / 8
        if self.regime == "grid":
            v = r.randrange(0, self.grid_max * GRID + 1) / GRID
            return -0.0 if (v == 0.0 and r.random() < 0.1) else v
        k = r.random()
        if k < 0.15:
            return float(r.randrange(0, 1001))
        if k < 0.25:
            return self.pick([0.1 + 0.2, 0.7 + 0.1, 1.1 * 3, 0.1 * 3, 2.675, 1 / 3, 100 / 7])
        # digits shrink with magnitude so that two distinct values are never
        # within praatio's tolerant-equality distance (rel 1e-9) of each other
        e = r.randrange(0, 4)
        d = r.randrange(1, 7 - e)
        return round(r.random() * 10 ** e, d)

    def near(self, b):
        """a value at / just next to boundary b"""
        r = self.rng
        if self.regime == "grid":
            return max(0.0, b + self.pick([0, 0, 1, -1, 2, -2]) / GRID)
        k = r.random()
        if k < 0.4:
            return b
        if k < 0.6:
            return max(0.0, b + self.pick([1, -1]) * self.pick([0.001, 0.01, 0.5, 1.0]))
        if not self.cfg.get("ulps", False) and self.regime != "extreme":
            return max(0.0, b + self.pick([1, -1]) * self.pick([0.002, 0.25]))
        if k < 0.8:
            return max(0.0, math.nextafter(b, self.pick([-math.inf, math.inf])))
        return max(0.0, b + self.pick([1, -1]) * 1e-9)

    def time(self, pool=None):
        if pool and self.chance(0.5):
            return self.near(self.pick(pool))
        return self.raw_time()

    def span(self, pool=None, tries=30):
        """a < b"""
        for _ in range(tries):
            a, b = self.time(pool), self.time(pool)
            if a > b:
                a, b = b, a
            if a < b and (self.regime in ("grid", "extreme") or b - a >= 1e-3 or self.cfg.get("ulps", False)):
                return a, b
        a = self.raw_time()
        return a, a + 1.0

    def duration(self):
        if self.regime == "extreme":
            return self.pick([2.0 ** -30, 1e-7, 1.0, 1e9, 2.0 ** 40])
        if self.regime == "grid":
            return self.rng.randrange(1, 4 * GRID + 1) / GRID
        return self.pick([0.001, 0.1, 0.25, 1.0, 2.5, round(self.rng.random() * 10, 3) + 0.001])

    def offset(self):
        if self.regime == "extreme":
            return self.pick([-1, 1]) * self.pick([1e9, 2.0 ** 40, 2.0 ** -30, 1e-7, 0.125, 1.0, 1e12])
        if self.regime == "grid":
            return self.rng.randrange(-6 * GRID, 6 * GRID + 1) / GRID
        return self.pick([-1, 1]) * self.pick([0.0, 0.001, 0.1, 0.3, 1.0, 2.5, 7.77, round(self.rng.random() * 20, 3)])

    def numtype(self, x):
        """sometimes hand over an int where the value is integral"""
        if float(x).is_integer() and self.chance(0.3):
            return int(x)
        return x

    # ------------------------------------------------------------- pools
    def pool_of(self, *tiers):
        s = set()
        for t in tiers:
            if isinstance(t, TextgridTier):
                s.add(float(t.minTimestamp))
                s.add(float(t.maxTimestamp))
                for e in t.entries:
                    for x in e[:-1]:
                        s.add(float(x))
            elif isinstance(t, Textgrid):
                if t.minTimestamp is not None:
                    s.add(float(t.minTimestamp))
                if t.maxTimestamp is not None:
                    s.add(float(t.maxTimestamp))
                for tt in t.tiers:
                    s.update(self.pool_of(tt))
        return sorted(s)

    def world_pool(self, world):
        return self.pool_of(*[world.heap[h] for h in world.live((TextgridTier, Textgrid))])

    # ------------------------------------------------------------- entry lists
    def cutpoints(self, n):
        """n distinct sorted times, min gap respected in the decimal regime"""
        r = self.rng
        if self.regime == "grid":
            hi = self.pick([self.grid_max * GRID, 4 * GRID, 2 * GRID]) if n <= 17 else self.grid_max * GRID
            n = min(n, hi + 1)
            return [x / GRID for x in sorted(r.sample(range(0, hi + 1), n))]
        out = set()
        guard = 0
        while len(out) < n and guard < 200 + 6 * n:
            guard += 1
            t = self.raw_time()
            if self.regime == "extreme" or all(abs(t - u) >= 1e-3 for u in out):
                out.add(t)
        return sorted(out)

    def interval_entries(self, maxn=8):
        """well-formed (disjoint, possibly touching) interval list, shuffled"""
        k = self.rng.randrange(0, maxn + 2)
        cuts = self.cutpoints(k)
        ents = []
        for a, b in zip(cuts, cuts[1:]):
            if self.chance(0.65) and len(ents) < maxn:
                ents.append([self.numtype(a), self.numtype(b), self.label()])
        self.rng.shuffle(ents)
        return ents

    def point_entries(self, maxn=8, distinct=True):
        k = self.rng.randrange(0, maxn + 1)
        cuts = self.cutpoints(k)
        ents = [[self.numtype(t), self.label()] for t in cuts]
        if not distinct and ents and self.chance(0.3):
            ents.append([ents[0][0], self.label()])
        self.rng.shuffle(ents)
        return ents

    def enc_entries(self, ents):
        """entry lists are handed over as tuples, lists or Interval/Point objects"""
        form = self.pick(["t", "l", "n"])
        out = []
        for e in ents:
            if form == "t":
                out.append({"$t": list(e)})
            elif form == "l":
                out.append(list(e))
            else:
                out.append({"$I": list(e)} if len(e) == 3 else {"$P": list(e)})
        return out

    def span_args(self, ents):
        """optional minT/maxT for a constructor: None, hull, wider, or *inside*
        the hull (the constructor must then widen to the hull)"""
        times = [float(x) for e in ents for x in e[:-1]]
        lo = min(times) if times else None
        hi = max(times) if times else None
        r = self.rng.random()
        if not times:
            a, b = self.span()
            return self.numtype(a), self.numtype(b)
        if r < 0.25:
            return None, None
        if r < 0.5:
            return self.numtype(lo), self.numtype(hi)
        if r < 0.85:
            a = max(0.0, lo - self.pick([0, 1, 2]))
            b = hi + self.pick([0, 1, 2.5])
            return self.numtype(a), self.numtype(b)
        # inside the hull / only one side given
        mid = (lo + hi) / 2
        return self.pick([None, mid]), self.pick([None, mid, hi])

    # ------------------------------------------------------------- ctor steps
    def ctor_interval(self, world, name=None, maxn=None):
        ents = self.interval_entries(maxn or self.cfg.get("maxn", 8))
        lo, hi = self.span_args(ents)
        return {"op": "IntervalTier", "recv": None,
                "a": [name or self.name(), self.enc_entries(ents), lo, hi],
                "out": world.new_handle()}

    def ctor_point(self, world, name=None, maxn=None, distinct=True):
        ents = self.point_entries(maxn or self.cfg.get("maxn", 8), distinct)
        lo, hi = self.span_args(ents)
        return {"op": "PointTier", "recv": None,
                "a": [name or self.name(), self.enc_entries(ents), lo, hi],
                "out": world.new_handle()}

    # ------------------------------------------------------------- shared entry lists
    def step_mklist(self, world, kind):
        """a Python list of entries that lives on the heap and can be handed to
        several constructors / new(entries=...) calls (the SAME list object)"""
        ents = self.interval_entries(6) if kind == "I" else self.point_entries(6)
        if self.chance(0.7):  # already normalised namedtuples: float times, clean labels
            key = "$I" if kind == "I" else "$P"
            enc = [{key: [float(x) for x in e[:-1]] + [e[-1].strip()]} for e in ents]
            enc.sort(key=lambda d: d[key][0])
        else:
            enc = self.enc_entries(ents)
        return {"op": "env.list", "a": [enc], "out": world.new_handle(), "kind": kind}

    @staticmethod
    def list_kind(lst, default="I"):
        return default if not lst else ("I" if len(lst[0]) == 3 else "P")

    def ctor_from_list(self, world, lh, name=None):
        lst = world.heap[lh]
        kind = self.list_kind(lst, self.pick(["I", "P"]))
        ents = [list(e) for e in lst]
        lo, hi = self.span_args(ents)
        return {"op": "IntervalTier" if kind == "I" else "PointTier", "recv": None,
                "a": [name or self.name(), H(lh), lo, hi], "out": world.new_handle(), "tag": "E-shared-list"}

    def ctor_bad_interval(self, world):
        """constructor inputs that must be rejected (overlap / start >= end)"""
        ents = self.interval_entries(5)
        a, b = self.span()
        if self.chance(0.5) or not ents:
            ents.append([b, a, self.label()] if self.chance(0.6) else [a, a, self.label()])
            tag = "F-degen"
        else:
            e = self.pick(ents)
            s, t = float(e[0]), float(e[1])
            mid = (s + t) / 2
            ents.append([mid, t + 1, self.label()])
            tag = "F-overlap"
        self.rng.shuffle(ents)
        return {"op": "IntervalTier", "recv": None, "a": ["bad", self.enc_entries(ents), None, None],
                "out": world.new_handle(), "tag": tag}

    # ------------------------------------------------------------- insert/delete
    @staticmethod
    def classify_interval(tier, s, e):
        ents = tier.entries
        ov = [x for x in ents if x.end > s and x.start < e]
        touch = any(x.end == s or x.start == e for x in ents)
        if s >= e:
            return "degenerate"
        if not ov:
            if e > tier.maxTimestamp or s < tier.minTimestamp:
                return "outside" if not touch else "touching"
            return "touching" if touch else "disjoint"
        if len(ov) == 1:
            x = ov[0]
            if s == x.start and e == x.end:
                return "identical"
            if x.start <= s and e <= x.end:
                return "contained"
            if s <= x.start and x.end <= e:
                return "containing"
            return "overlap1"
        if all(s <= x.start and x.end <= e for x in ov):
            return "containing"
        return "overlapN"

    INTERVAL_CATS = ["disjoint", "touching", "overlap1", "overlapN", "containing",
                     "contained", "outside", "identical"]

    def interval_to_insert(self, tier, extra_pool=()):
        want = self.pick(self.INTERVAL_CATS)
        pool = sorted(set(self.pool_of(tier)) | set(extra_pool))
        best = None
        if want == "identical" and len(tier.entries):
            x = self.pick(tier.entries)
            return x.start, x.end, want
        for _ in range(24):
            if want == "outside":
                base = float(tier.maxTimestamp) if self.chance(0.7) or tier.minTimestamp <= 0 else 0.0
                if base == 0.0:
                    s, e = 0.0, float(tier.minTimestamp)
                    if self.chance(0.5) and e > 0:
                        e = e / 2 if self.regime != "grid" else max(1 / GRID, math.floor(e * GRID / 2) / GRID)
                else:
                    s = base + (self.pick([0, 1, 2]) / (GRID if self.regime == "grid" else 1))
                    e = s + self.duration()
            else:
                s, e = self.span(pool)
            cat = self.classify_interval(tier, s, e)
            if cat == want:
                return s, e, cat
            if best is None and cat != "degenerate":
                best = (s, e, cat)
        if best is None:
            s, e = self.span(pool)
            best = (s, e, self.classify_interval(tier, s, e))
        return best

    def enc_entry(self, vals, kind):
        """insertEntry/deleteEntry accept tuples, lists and the namedtuples"""
        vals = list(vals)
        f = self.rng.random()
        if f < 0.4:
            return {"$I": vals} if kind == "I" else {"$P": vals}
        if f < 0.8:
            return {"$t": vals}
        return vals

    @staticmethod
    def enc_obj(vals, kind):
        """deleteEntry is documented for Interval/Point objects only (a plain
        tuple never compares equal to a stored namedtuple), so only those"""
        return {"$I": list(vals)} if kind == "I" else {"$P": list(vals)}

    def ins_label(self):
        """labels offered to insertEntry: occasionally padded even in unpadded runs"""
        lab = self.label()
        if self.cfg.get("pad_inserts", True) and self.chance(0.08):
            lab = self.pick([" ", "\t", "", "\xa0"]) + lab + self.pick([" ", "\n", "", "\u2003", "\r"])
        return lab

    def step_insert(self, world, h, mode=None, report=None, extra_pool=()):
        t = world.heap[h]
        mode = mode or self.pick(INS_MODES)
        report = report or self.pick(["silence", "warning"])
        resurrect = [d for d in self.deleted if len(d) == (3 if isinstance(t, IntervalTier) else 2)]
        if resurrect and self.chance(0.15):
            # insert again what an earlier step deleted (same times, maybe another label)
            d = self.pick(resurrect)
            vals = list(d[:-1]) + [d[-1] if self.chance(0.5) else self.ins_label()]
            kind = "I" if isinstance(t, IntervalTier) else "P"
            cat = self.classify_interval(t, vals[0], vals[1]) if kind == "I" else (
                "same-time" if any(p.time == vals[0] for p in t.entries) else "free")
            return {"op": "tier.insertEntry", "recv": h, "a": [self.enc_entry(vals, kind)],
                    "k": {"collisionMode": mode, "collisionReportingMode": report},
                    "tag": "F-coll" if (mode == "error" and cat not in ("free", "disjoint", "touching", "outside")) else None,
                    "cat": cat}
        if isinstance(t, IntervalTier):
            s, e, cat = self.interval_to_insert(t, extra_pool)
            entry = self.enc_entry([self.numtype(s), self.numtype(e), self.ins_label()], "I")
        else:
            times = [p.time for p in t.entries]
            r = self.rng.random()
            if times and self.regime != "grid" and self.chance(0.07):
                # "close twin": one ulp next to an existing point, with that point's label.  No collision
                # (times are compared exactly), and from then on the two must be kept apart by every
                # later delete / replace / merge although they are equal under praatio's tolerant ==
                e = self.pick(t.entries)
                tm = math.nextafter(float(e.time), self.pick([-math.inf, math.inf]))
                if tm >= 0 and tm not in times:
                    return {"op": "tier.insertEntry", "recv": h, "a": [self.enc_entry([tm, e.label], "P")],
                            "k": {"collisionMode": mode, "collisionReportingMode": report}, "tag": None,
                            "cat": "close-twin"}
            if times and r < 0.45:
                tm, cat = self.pick(times), "same-time"
            elif r < 0.6:
                tm = float(t.maxTimestamp) + self.duration() * self.pick([0, 1])
                cat = "outside" if tm > t.maxTimestamp else "at-max"
            elif r < 0.7 and t.minTimestamp > 0:
                tm, cat = self.pick([0.0, float(t.minTimestamp) / 2]), "outside"
            else:
                tm, cat = self.raw_time(), "free"
                if tm in times:
                    cat = "same-time"
            entry = self.enc_entry([self.numtype(tm), self.ins_label()], "P")
        tag = None
        if cat in ("overlap1", "overlapN", "containing", "contained", "identical", "same-time") and mode == "error":
            tag = "F-coll"
        return {"op": "tier.insertEntry", "recv": h, "a": [entry],
                "k": {"collisionMode": mode, "collisionReportingMode": report},
                "tag": tag, "cat": cat}

    def step_delete(self, world, h, present=None):
        """delete an existing entry (exact copy) or a clearly absent one --
        never a near miss (Interval/Point equality is tolerant: gray zone)"""
        t = world.heap[h]
        ents = t.entries
        kind = "I" if isinstance(t, IntervalTier) else "P"
        if present is None:
            present = self.chance(0.7)
        if ents and present:
            e = list(self.pick(ents))
            self.deleted.append(tuple(e))
            del self.deleted[:-6]
            return {"op": "tier.deleteEntry", "recv": h, "a": [self.enc_obj(e, kind)]}
        # absent: a different label on an existing entry, or times >= 0.5 away from everything
        if ents and self.chance(0.5):
            e = list(self.pick(ents))
            e[-1] = e[-1] + "~"
        else:
            base = float(t.maxTimestamp) + 3.0 + self.rng.randrange(0, 5)
            e = [base, base + 1.0, self.label()] if kind == "I" else [base, self.label()]
        return {"op": "tier.deleteEntry", "recv": h, "a": [self.enc_obj(e, kind)], "tag": "F-missing"}

    # ------------------------------------------------------------- copy-returning tier ops
    def step_crop(self, world, h, pool=None):
        t = world.heap[h]
        pool = pool or self.pool_of(t)
        a, b = self.span(pool)
        return {"op": "tier.crop", "recv": h,
                "a": [self.numtype(a), self.numtype(b), self.pick(CROP_MODES), self.chance(0.5)],
                "out": world.new_handle()}

    def step_erase(self, world, h, pool=None):
        t = world.heap[h]
        pool = pool or self.pool_of(t)
        a, b = self.span(pool)
        return {"op": "tier.eraseRegion", "recv": h,
                "a": [self.numtype(a), self.numtype(b), self.pick(ERASE_MODES), self.chance(0.5)],
                "out": world.new_handle()}

    def step_space(self, world, h, pool=None):
        t = world.heap[h]
        pool = pool or self.pool_of(t)
        s = self.time(pool)
        return {"op": "tier.insertSpace", "recv": h,
                "a": [self.numtype(s), self.numtype(self.duration()), self.pick(SPACE_MODES)],
                "out": world.new_handle()}

    def step_shift(self, world, h):
        return {"op": "tier.editTimestamps", "recv": h,
                "a": [self.numtype(self.offset()), self.pick(REPORT)],
                "out": world.new_handle()}

    def step_binary(self, world, h, h2, m):
        return {"op": "tier." + m, "recv": h, "a": [H(h2)], "out": world.new_handle()}

    def step_dejitter(self, world, h, h2):
        if self.regime == "grid":
            md = self.pick([1 / GRID, 2 / GRID, 0.0625, 1.0])
        else:
            md = self.pick([0.001, 0.0011, 0.01, 0.5, 1.0])
        return {"op": "tier.dejitter", "recv": h, "a": [H(h2), md], "out": world.new_handle()}

    def step_morph(self, world, h, h2):
        t = world.heap[h]
        flt = None
        if self.chance(0.4):
            labs = sorted({e.label for e in t.entries})
            flt = [x for x in labs if self.chance(0.5)]
        return {"op": "tier.morph", "recv": h, "a": [H(h2), {"$filter": flt}], "out": world.new_handle()}

    def step_new(self, world, h):
        t = world.heap[h]
        k = {}
        if self.chance(0.4):
            k["name"] = self.name()
        if self.chance(0.4):
            if isinstance(t, IntervalTier):
                k["entries"] = self.enc_entries(self.interval_entries(5))
            else:
                k["entries"] = self.enc_entries(self.point_entries(5))
        if self.chance(0.3):
            k["minTimestamp"] = self.numtype(self.raw_time())
        if self.chance(0.3):
            k["maxTimestamp"] = self.numtype(self.raw_time())
        return {"op": "tier.new", "recv": h, "a": [], "k": k, "out": world.new_handle()}

    # ------------------------------------------------------------- helpers
    def tiers(self, world, cls=TextgridTier):
        return world.live(cls)

    def same_type_partner(self, world, h, allow_cross=0.05):
        t = world.heap[h]
        cls = IntervalTier if isinstance(t, IntervalTier) else PointTier
        if self.chance(allow_cross):
            cands = world.live(TextgridTier)
        else:
            cands = world.live(cls)
        return self.pick(cands) if cands else h
