"""C11 -- insertEntry/deleteEntry follow the collision policy exactly.

System: one or two tiers, each with a list-model twin (models.TierModel).
Every insert/delete is compared with the model: outcome class, entries
(field by field, exact), span.  Copy-returning operations are used only to
*derive* new starting tiers along the history (the model twin of the result is
taken from its observed state), so that inserts and deletes are also checked
on tiers reachable by other operations -- "for all well-formed tiers".
"""
from .engine import Oracle, Violation
from .gen import G, H, INS_MODES, BAD_OPTION
from .models import TierModel, tier_state, states_equal, OK, RAISE
from .world import IntervalTier, PointTier, TextgridTier

PROP = "C11"


def config(rng, tier):
    deep = tier == "thorough"
    return {
        "regime": rng.choice(["grid", "grid", "decimal"]),
        "labels": rng.choice(["plain", "plain", "punct", "empty", "unicode", "numeric"]),
        "pad_inserts": False,
        "kind": rng.choice(["I", "I", "P"]),
        "steps": rng.randrange(3, 25 if deep else 13),
        "fault_rate": rng.choice([0.0, 0.1, 0.25, 0.4]),
        "derive": rng.choice([0.0, 0.05, 0.15]),
        "two": rng.random() < 0.3,
        "warn_error": rng.random() < 0.1,  # run under warnings.simplefilter("error")
        "dup_points": rng.random() < 0.3,
        "ulps": rng.random() < 0.3,  # decimal regime: boundaries also nudged by one ulp / 1e-9 (exact model)  # point tiers may start with several points at one time
        "maxn": rng.choice([8] * 30 + [24, 24, 24, 40, 40, 120, 120, 320, 320, 640]),
    }


class C11Oracle(Oracle):
    name = "list-model"

    def start(self, run):
        self.models = {}  # handle -> TierModel
        self.pending = None

    def _fail(self, op, cls, detail):
        raise Violation(PROP, self.name, op, cls, detail)

    def before(self, run, out):
        self.pending = None
        name = out.op.name
        if name not in ("tier.insertEntry", "tier.deleteEntry"):
            return
        h = out.step["recv"]
        m = self.models.get(h)
        if m is None:
            return
        # sanity: the model and the real tier agree before the call
        if not states_equal(tier_state(out.recv), m.state()):
            self._fail(name, "pre-state-drift", {"real": tier_state(out.recv), "model": m.state()})
        if name == "tier.insertEntry":
            entry = out.args[0]
            mode = out.kwargs.get("collisionMode", "error")
            rep = out.kwargs.get("collisionReportingMode", "warning")
            if rep not in ("silence", "warning", "error"):
                exp, alts = "WrongOption", [m.state()]
            else:
                exp, alts = m.insert(entry, mode)
        elif out.step.get("tag") == "G-near-miss":
            exp, alts = m.delete_near(out.args[0])
        else:
            exp, alts = m.delete(out.args[0])
        self.pending = (h, m, exp, alts)

    def after(self, run, out):
        name = out.op.name
        if out.ok and out.op.kind in ("ctor", "copy") and isinstance(out.result, TextgridTier) \
                and out.step.get("out") is not None:
            self.models[out.step["out"]] = TierModel.of(out.result)
            return
        if self.pending is None:
            return
        h, m, exp, alts = self.pending
        self.pending = None
        got = tier_state(out.recv)
        mode = m.kind + "/" + (out.kwargs.get("collisionMode", "error") if name == "tier.insertEntry" else "-")
        cat = out.step.get("cat", "-")
        if exp == "any":
            # gray zone: either outcome, but the state must be the matching alternative
            want = alts[:1] if not out.ok else alts[1:]
            match = [a for a in want if states_equal(got, a)]
            if not match:
                self._fail(name, f"near-miss-delete-inconsistent/{mode}/{'ok' if out.ok else 'raised'}",
                           {"acceptable": want, "real": got, "target": repr(out.args[0])})
            m.commit(match[0])
            run.stats[f"c11:deleteEntry:{mode}:near-miss:{out.outcome}"] += 1
            return
        # 1. outcome class
        if exp == OK and not out.ok:
            self._fail(name, f"unexpected-{type(out.exc).__name__}/{mode}",
                       {"expected": "ok", "got": repr(out.exc), "cat": cat})
        if exp != OK and out.ok:
            self._fail(name, f"missing-{exp}/{mode}", {"expected": exp, "got": "ok", "cat": cat, "after": got})
        if exp not in (OK, RAISE) and type(out.exc).__name__ != exp:
            self._fail(name, f"wrong-exception-{type(out.exc).__name__}-for-{exp}/{mode}",
                       {"expected": exp, "got": repr(out.exc)})
        # 2. state
        match = [a for a in alts if states_equal(got, a)]
        if not match:
            if exp == OK:
                what = "entries" if not any(got[0] == a[0] for a in alts) else "span"
                self._fail(name, f"wrong-{what}/{mode}", {"model": alts, "real": got, "cat": cat})
            self._fail(name, f"changed-on-failure-{exp}/{mode}", {"model": alts, "real": got, "cat": cat})
        m.commit(match[0])
        run.stats[f"c11:{name.split('.')[1]}:{mode}:{cat}:{out.outcome}"] += 1


def oracles(cfg):
    return [C11Oracle()]


def generate(run, rng):
    cfg = run.cfg
    g = G(rng, cfg)
    w = run.world
    kind = cfg["kind"]

    def ctor():
        if kind == "I":
            return g.ctor_interval(w)
        return g.ctor_point(w, distinct=not cfg.get("dup_points", False))

    out = run.do(ctor())
    while out is None or not out.ok:
        out = run.do(ctor())
    if cfg["two"]:
        run.do(ctor())
    cls = IntervalTier if kind == "I" else PointTier
    for _ in range(cfg["steps"]):
        hs = w.live(cls)
        h = g.pick(hs)
        t = w.heap[h]
        r = rng.random()
        fault = rng.random() < cfg["fault_rate"]
        if r < cfg["derive"]:
            m = g.pick(["crop", "erase", "space", "shift", "union", "new"])
            if m == "crop":
                st = g.step_crop(w, h)
            elif m == "erase":
                st = g.step_erase(w, h)
            elif m == "space":
                st = g.step_space(w, h)
            elif m == "shift":
                st = g.step_shift(w, h)
            elif m == "union":
                st = g.step_binary(w, h, g.pick(hs), "union")
            else:
                st = {"op": "tier.new", "recv": h, "a": [], "k": {}, "out": w.new_handle()}
            run.do(st)
            if len(w.live(cls)) > 4:
                run.do({"op": "env.drop", "a": [w.live(cls)[0]]})
            continue
        if r < 0.72 or len(t.entries) == 0:
            pool = g.world_pool(w)
            if fault and rng.random() < 0.35:
                st = g.step_insert(w, h, extra_pool=pool)
                which = rng.random()
                if which < 0.4:
                    st["k"]["collisionMode"] = BAD_OPTION
                    st["tag"] = "F-opt"
                elif which < 0.6:
                    st["k"]["collisionReportingMode"] = BAD_OPTION
                    st["tag"] = "F-opt"
                elif kind == "I":
                    a, b = g.span(pool)
                    st["a"] = [g.enc_entry([b, a] + [g.label()], "I") if rng.random() < 0.6
                               else g.enc_entry([a, a, g.label()], "I")]
                    st["tag"] = "F-degen"
                    st["cat"] = "degenerate"
            elif fault:
                st = g.step_insert(w, h, mode="error", extra_pool=pool)
            else:
                st = g.step_insert(w, h, extra_pool=pool)
        else:
            st = g.step_delete(w, h, present=not (fault and rng.random() < 0.6))
            if st.get("tag") is None and cfg["regime"] == "decimal" and rng.random() < 0.25:
                # same entry, one time nudged by an ulp: inside praatio's tolerant equality
                key = "$I" if kind == "I" else "$P"
                vals = list(st["a"][0][key])
                i = rng.randrange(len(vals) - 1)
                import math as _m
                vals[i] = _m.nextafter(float(vals[i]), rng.choice([-_m.inf, _m.inf]))
                if kind == "P" or vals[0] < vals[1]:
                    st["a"] = [{key: vals}]
                    st["tag"] = "G-near-miss"
        run.do(st)


def nontrivial(run):
    return run.n_ok_mut >= 3
