"""ddmin over recorded steps + argument simplification (DESIGN s3.6).

A candidate is accepted only if replaying it raises a violation with the SAME
signature.  Steps whose handles are dead are skipped by the executor, so any
subset of steps is a legal history.
"""
import copy

from . import runner


def _same(prop, cfg, steps, signature):
    try:
        res = runner.replay(prop, cfg, steps)
    except Exception:  # a simplified candidate may be outside what the oracles model
        return False
    return res.violation is not None and res.violation["signature"] == signature


def _simplify_value(v):
    """yield simpler variants of one encoded argument value"""
    if isinstance(v, bool) or v is None:
        return
    if isinstance(v, float):
        for c in (0.0, 1.0, float(round(v)), round(v * 8) / 8, round(v, 3)):
            if c != v:
                yield c
    elif isinstance(v, int):
        for c in (0, 1):
            if c != v:
                yield c
    elif isinstance(v, str):
        if v not in ("a", "") and len(v) <= 3:
            yield "a"
    elif isinstance(v, list):
        for i in range(len(v)):
            yield v[:i] + v[i + 1:]
        for i, x in enumerate(v):
            for sx in _simplify_value(x):
                yield v[:i] + [sx] + v[i + 1:]
    elif isinstance(v, dict):
        for key in ("$I", "$P", "$t"):
            if key in v:
                vals = v[key]
                for i, x in enumerate(vals):
                    for sx in _simplify_value(x):
                        if isinstance(sx, list):
                            continue
                        yield {key: vals[:i] + [sx] + vals[i + 1:]}
        if "$b" in v:
            b = v["$b"]
            if len(b) > 8:
                half = (len(b) // 4) * 2
                yield {"$b": b[:half]}


def minimise(prop, cfg, steps, signature, budget=400):
    steps = copy.deepcopy(steps)
    used = 0

    def test(cand):
        nonlocal used
        used += 1
        return _same(prop, cfg, cand, signature)

    # 0. confirm + truncate after the violating step
    res = runner.replay(prop, cfg, steps)
    if res.violation is None or res.violation["signature"] != signature:
        return steps, {"reproduced": False, "replays": 1}
    # executed counts only non-skipped steps; find the prefix length by replaying prefixes lazily
    lo = 1
    hi = len(steps)
    while lo < hi and used < budget:
        mid = (lo + hi) // 2
        if test(steps[:mid]):
            hi = mid
        else:
            lo = mid + 1
    steps = steps[:hi]
    # 1. ddmin
    n = 2
    while len(steps) >= 2 and used < budget:
        chunk = max(1, len(steps) // n)
        removed = False
        i = 0
        while i < len(steps) and used < budget:
            cand = steps[:i] + steps[i + chunk:]
            if cand and test(cand):
                steps = cand
                removed = True
            else:
                i += chunk
        if removed:
            n = max(n - 1, 2)
        elif chunk == 1:
            break
        else:
            n = min(len(steps), n * 2)
    # 2. argument simplification, one value at a time, to a fixpoint
    progress = True
    while progress and used < budget:
        progress = False
        for si, st in enumerate(steps):
            for field in ("a", "k"):
                cur = st.get(field)
                if not cur:
                    continue
                keys = range(len(cur)) if field == "a" else list(cur)
                for key in keys:
                    for sv in _simplify_value(cur[key]):
                        if used >= budget:
                            break
                        cand = copy.deepcopy(steps)
                        cand[si][field][key] = sv
                        if test(cand):
                            steps = cand
                            st = steps[si]
                            cur = st[field]
                            progress = True
                            break
    return steps, {"reproduced": True, "replays": used}
