"""Small executable reference models (same interface, trivial inside).

They never look at praatio's implementation, only at plain tuples/lists.
Comparisons are exact (== on floats/strings); generators keep away from the
tolerance of praatio's Interval/Point equality instead of imitating it.
"""

RAISE = "raise"  # any exception
OK = "ok"


class TierModel:
    """entries: sorted list of plain tuples; span (lo, hi)."""

    def __init__(self, kind, entries, lo, hi):
        self.kind = kind  # "I" | "P"
        self.entries = sorted(entries)
        self.lo = lo
        self.hi = hi

    @classmethod
    def of(cls, tier):
        ents = [tuple(e) for e in tier.entries]
        kind = "I" if (tier.tierType == "IntervalTier") else "P"
        return cls(kind, ents, tier.minTimestamp, tier.maxTimestamp)

    def copy(self):
        return TierModel(self.kind, list(self.entries), self.lo, self.hi)

    def state(self):
        return (list(self.entries), self.lo, self.hi)

    # -- insertEntry -----------------------------------------------------
    def insert(self, vals, mode, valid_modes=("replace", "merge", "error")):
        """Returns (expected outcome class, [acceptable post-states]).
        outcome class: "ok" | "CollisionError" | "raise" (anything)"""
        before = [self.state()]
        if mode not in valid_modes:
            return "WrongOption", before
        try:
            vals = list(vals)
            if self.kind == "I":
                s, e, lab = vals
            else:
                s, lab = vals
                e = s
            lab = lab.strip()
        except Exception:
            return RAISE, before
        if self.kind == "I":
            if not s < e:
                return RAISE, before
            col = [m for m in self.entries if m[1] > s and m[0] < e]
            new = (s, e, lab)
        else:
            col = [m for m in self.entries if m[0] == s]  # every point at that time collides
            new = (s, lab)
        if col and mode == "error":
            return "CollisionError", before
        rest = [m for m in self.entries if m not in col]
        alts = []
        if not col or mode == "replace":
            alts.append(rest + [new])
        else:  # merge
            if self.kind == "I":
                lo = min([m[0] for m in col] + [s])
                hi = max([m[1] for m in col] + [e])
                # labels in time order; a tie on the start time (only possible
                # between the new interval and one old one) is accepted both ways
                olds = sorted(col)
                orders = []
                before_new = [m for m in olds if m[0] < s]
                tie = [m for m in olds if m[0] == s]
                after_new = [m for m in olds if m[0] > s]
                orders.append(before_new + tie + [new] + after_new)
                if tie:
                    orders.append(before_new + [new] + tie + after_new)
                for o in orders:
                    alts.append(rest + [(lo, hi, "-".join(m[2] for m in o))])
            else:
                alts.append(rest + [(s, "-".join([m[1] for m in col] + [lab]))])  # old (in tier order) then new
        lo2 = min(self.lo, s)
        hi2 = max(self.hi, e)
        return OK, [(sorted(a), lo2, hi2) for a in alts]

    def delete(self, vals):
        vals = tuple(vals)
        before = [self.state()]
        if vals in self.entries:
            ents = list(self.entries)
            ents.remove(vals)
            return OK, [(ents, self.lo, self.hi)]
        return RAISE, before

    def delete_near(self, vals, rel=1e-9):
        """Gray zone of praatio's tolerant entry equality: the target differs from a
        stored entry by rounding noise only.  The statement does not say whether
        that counts as 'the given entry', so BOTH behaviours are accepted - raise and
        change nothing, or remove exactly one of the tolerance-equal entries - and
        nothing else (no other entry lost, no corruption)."""
        vals = tuple(vals)
        alts = [self.state()]
        for i, m in enumerate(self.entries):
            if len(m) == len(vals) and m[-1] == vals[-1] and all(
                    abs(a - b) <= rel * max(abs(a), abs(b)) + 1e-14 for a, b in zip(m[:-1], vals[:-1])):
                ents = list(self.entries)
                ents.pop(i)
                alts.append((ents, self.lo, self.hi))
        return "any", alts

    def commit(self, state):
        self.entries, self.lo, self.hi = list(state[0]), state[1], state[2]


def tier_state(tier):
    return ([tuple(e) for e in tier.entries], tier.minTimestamp, tier.maxTimestamp)


def states_equal(a, b):
    """exact, and strict about the number *value* (1 == 1.0 is fine: praatio
    documents no int/float normalisation for insertEntry)"""
    return a[0] == b[0] and a[1] == b[1] and a[2] == b[2]


# ---------------------------------------------------------------------------
class TgModel:
    """ordered list of (name, tier object) + span (may be None, None)."""

    def __init__(self, lo=None, hi=None):
        self.slots = []  # [name, tierobj]
        self.lo = lo
        self.hi = hi

    @classmethod
    def of(cls, tg):
        m = cls(tg.minTimestamp, tg.maxTimestamp)
        m.slots = [[n, tg.getTier(n)] for n in tg.tierNames]
        return m

    def names(self):
        return [s[0] for s in self.slots]

    def _span_after(self, tier):
        lo, hi = self.lo, self.hi
        changed = False
        if lo is None or tier.minTimestamp < lo:
            changed = changed or (lo is not None)
            lo = tier.minTimestamp
        if hi is None or tier.maxTimestamp > hi:
            changed = changed or (hi is not None)
            hi = tier.maxTimestamp
        return lo, hi, changed

    def add(self, tier, index, mode, valid=("silence", "warning", "error"), _apply=True):
        """-> (outcome class, apply())"""
        if mode not in valid:
            return "WrongOption", None
        if not hasattr(tier, "name") or tier.name in self.names():
            return "TierNameExistsError", None
        lo, hi, changed = self._span_after(tier)
        if changed and mode == "error":
            return "TextgridStateAutoModified", None
        if index is not None and not isinstance(index, int):
            return RAISE, None  # a plain list rejects it too (list.insert -> TypeError)

        def apply():
            if index is None:
                self.slots.append([tier.name, tier])
            else:
                self.slots.insert(index, [tier.name, tier])
            self.lo, self.hi = lo, hi

        return OK, apply

    def remove(self, name):
        if name not in self.names():
            return RAISE, None

        def apply():
            i = self.names().index(name)
            self.slots.pop(i)

        return OK, apply

    def rename(self, old, new):
        if old not in self.names():
            return RAISE, None
        if new != old and new in self.names():
            return "TierNameExistsError", None

        def apply():
            i = self.names().index(old)
            t = self.slots[i][1]
            if isinstance(t, tuple):
                t = t[1]
            self.slots[i] = [new, ("renamed", t)]
            # the renamed copy is re-added, so the span covers it (it only ever widens)
            if self.lo is None or t.minTimestamp < self.lo:
                self.lo = t.minTimestamp
            if self.hi is None or t.maxTimestamp > self.hi:
                self.hi = t.maxTimestamp

        return OK, apply

    def replace(self, name, tier, mode, valid=("silence", "warning", "error")):
        if name not in self.names():
            return RAISE, None
        if mode not in valid:
            return "WrongOption", None
        others = [n for n in self.names() if n != name]
        if tier.name in others:
            return "TierNameExistsError", None
        lo, hi, changed = self._span_after(tier)
        if changed and mode == "error":
            return "TextgridStateAutoModified", None

        def apply():
            i = self.names().index(name)
            self.slots[i] = [tier.name, tier]
            self.lo, self.hi = lo, hi

        return OK, apply


# ---------------------------------------------------------------------------
class WavModel:
    def __init__(self, samples, width, rate):
        self.s = list(samples)
        self.width = width
        self.rate = rate

    def copy(self):
        return WavModel(self.s, self.width, self.rate)

    def idx(self, t):
        i = round(t * self.rate)
        return max(0, min(len(self.s), i))

    def insert(self, t, samples):
        i = self.idx(t)
        self.s[i:i] = list(samples)

    def delete(self, a, b):
        i, j = self.idx(a), self.idx(b)
        del self.s[i:j]

    def replace(self, a, b, samples):
        i, j = self.idx(a), self.idx(b)
        del self.s[i:j]
        # praatio: insert at the index of `a` computed on the shortened buffer
        k = self.idx(a)
        self.s[k:k] = list(samples)

    def get(self, a, b):
        return self.s[self.idx(a):self.idx(b)]
