"""Operation table: how a recorded step is turned into a real praatio call.

kind:
  ctor   constructor (no receiver), result goes on the heap
  copy   documented copy-returning operation (C13's list); result goes on the heap
  mut    in-place mutator (C13's list / Wav edits)
  query  returns a value; nothing goes on the heap
  save   writes a file through the seam
  open   reads a file through the seam; result goes on the heap
  alias  returns a reference to an existing object (Textgrid.getTier)
  env    an action of the environment/simulator itself (pre-create a file,
         drop a handle, arm an I/O fault) -- not a call into praatio
"""
from .world import (
    IntervalTier,
    PointTier,
    Skip,
    Textgrid,
    TextgridTier,
    audio,
    tgmod,
)


class Op:
    __slots__ = ("name", "kind", "recv", "fn")

    def __init__(self, name, kind, recv, fn):
        self.name = name
        self.kind = kind
        self.recv = recv  # "tier" | "tg" | "wav" | "qwav" | None
        self.fn = fn


OPS = {}


def _reg(name, kind, recv, fn):
    OPS[name] = Op(name, kind, recv, fn)


def _method(m):
    def call(world, recv, a, k):
        return getattr(recv, m)(*a, **k)

    return call


# ---- tiers
_reg("IntervalTier", "ctor", None, lambda w, r, a, k: IntervalTier(*a, **k))
_reg("PointTier", "ctor", None, lambda w, r, a, k: PointTier(*a, **k))
for _m in ("crop", "eraseRegion", "insertSpace", "editTimestamps", "union", "difference",
           "intersection", "mergeLabels", "appendTier", "dejitter", "morph", "new"):
    _reg("tier." + _m, "copy", "tier", _method(_m))
for _m in ("insertEntry", "deleteEntry"):
    _reg("tier." + _m, "mut", "tier", _method(_m))
for _m in ("find", "getNonEntries", "getValuesInIntervals", "getValuesAtPoints", "validate"):
    _reg("tier." + _m, "query", "tier", _method(_m))
_reg("tier.timestamps", "query", "tier", lambda w, r, a, k: r.timestamps)
_reg("tier.entries", "query", "tier", lambda w, r, a, k: r.entries)
_reg("tier.iter", "query", "tier", lambda w, r, a, k: list(r))
_reg("tier.len", "query", "tier", lambda w, r, a, k: len(r))
_reg("tier.iterpair", "query", "tier", lambda w, r, a, k: list(zip(r, r)))
_reg("tier.eq", "query", "tier", lambda w, r, a, k: r == a[0])
_reg("tier.sort", "mut", "tier", _method("sort"))

# ---- textgrids
_reg("Textgrid", "ctor", None, lambda w, r, a, k: Textgrid(*a, **k))
for _m in ("crop", "eraseRegion", "insertSpace", "editTimestamps", "appendTextgrid",
           "mergeTiers", "new"):
    _reg("tg." + _m, "copy", "tg", _method(_m))
for _m in ("addTier", "removeTier", "renameTier", "replaceTier"):
    _reg("tg." + _m, "mut", "tg", _method(_m))
_reg("tg.getTier", "alias", "tg", _method("getTier"))
_reg("tg.validate", "query", "tg", _method("validate"))
_reg("tg.tierNames", "query", "tg", lambda w, r, a, k: r.tierNames)
_reg("tg.tiers", "query", "tg", lambda w, r, a, k: r.tiers)
_reg("tg.iter", "query", "tg", lambda w, r, a, k: list(r))
_reg("tg.len", "query", "tg", lambda w, r, a, k: len(r))
_reg("tg.eq", "query", "tg", lambda w, r, a, k: r == a[0])
_reg("tg.save", "save", "tg", _method("save"))
_reg("openTextgrid", "open", None, lambda w, r, a, k: tgmod.openTextgrid(*a, **k))

# ---- audio
_reg("Wav", "ctor", None, lambda w, r, a, k: audio.Wav(*a, **k))
# the idiom `audio.Wav(newFrames, otherWav.params)`: a new recording with the parameters of an existing one
_reg("Wav.like", "ctor", None, lambda w, r, a, k: audio.Wav(a[0], a[1].params))
# ... and `audio.Wav(otherWav.frames, otherWav.params)`: the very same frames object handed to a second recording
_reg("Wav.from", "ctor", None, lambda w, r, a, k: audio.Wav(a[0].frames, a[0].params))
for _m in ("insert", "deleteSegment", "replaceSegment", "concatenate"):
    _reg("wav." + _m, "mut", "wav", _method(_m))
for _m in ("getSubwav", "new"):
    _reg("wav." + _m, "copy", "wav", _method(_m))
for _m in ("getFrames", "getSamples"):
    _reg("wav." + _m, "query", "wav", _method(_m))
_reg("wav.duration", "query", "wav", lambda w, r, a, k: r.duration)
_reg("wav.save", "save", "wav", _method("save"))
_reg("Wav.open", "open", None, lambda w, r, a, k: audio.Wav.open(*a, **k))
_reg("QueryWav", "open", None, lambda w, r, a, k: audio.QueryWav(*a, **k))
for _m in ("getFrames", "getSamples"):
    _reg("qwav." + _m, "query", "qwav", _method(_m))
_reg("qwav.duration", "query", "qwav", lambda w, r, a, k: r.duration)
_reg("audio.getDuration", "query", None, lambda w, r, a, k: audio.getDuration(*a, **k))
_reg("audio.convertToBytes", "query", None, lambda w, r, a, k: audio.convertToBytes(tuple(a[0]), a[1]))
_reg("audio.convertFromBytes", "query", None, lambda w, r, a, k: audio.convertFromBytes(a[0], a[1]))


# ---- environment / simulator actions
def _env_put(world, recv, a, k):
    world.fs.put(a[0], a[1])


def _env_drop(world, recv, a, k):
    for h in a:
        o = world.heap.pop(h, None)
        if isinstance(o, audio.QueryWav):
            try:
                o.audiofile.close()
            except Exception:
                pass


def _env_list(world, recv, a, k):
    """a plain Python list that lives on the heap, so that the SAME list object
    can be handed to several calls (constructor / new(entries=...)) and is
    itself observed by the frame oracle"""
    return list(a[0])


def _env_fault(world, recv, a, k):
    world.fs.fault = (a[0], a[1])


def _env_unfault(world, recv, a, k):
    world.fs.fault = None


_reg("env.list", "env", None, _env_list)
_reg("env.put", "env", None, _env_put)
_reg("env.drop", "env", None, _env_drop)
_reg("env.fault", "env", None, _env_fault)
_reg("env.unfault", "env", None, _env_unfault)


RECV_TYPES = {
    "tier": TextgridTier,
    "tg": Textgrid,
    "wav": audio.Wav,
    "qwav": audio.QueryWav,
}


class Outcome:
    __slots__ = ("step", "op", "recv", "args", "kwargs", "ok", "result", "exc", "skipped", "prints")

    def __init__(self, step, op):
        self.step = step
        self.op = op
        self.recv = None
        self.args = None
        self.kwargs = None
        self.ok = False
        self.result = None
        self.exc = None
        self.skipped = False
        self.prints = 0

    @property
    def outcome(self):
        return "ok" if self.ok else type(self.exc).__name__


def resolve(world, step):
    """Decode a step against the heap; raises Skip if a handle is dead or the
    receiver has the wrong type (possible only after minimisation)."""
    op = OPS[step["op"]]
    out = Outcome(step, op)
    if op.kind == "env":
        if op.name == "env.drop":
            out.args, out.kwargs = list(step.get("a", [])), {}
        else:
            out.args = [world.dec(v) for v in step.get("a", [])]
            out.kwargs = {}
        return out
    if op.recv is not None:
        h = step.get("recv")
        if h not in world.heap:
            raise Skip(h)
        out.recv = world.heap[h]
        if not isinstance(out.recv, RECV_TYPES[op.recv]):
            raise Skip(h)
    out.args = [world.dec(v) for v in step.get("a", [])]
    out.kwargs = {name: world.dec(v) for name, v in step.get("k", {}).items()}
    return out


class InjectedCrash(Exception):
    """Raised by the simulator at the N-th executed line of praatio code inside one
    call (step key "crash_at"): an asynchronous failure (interrupt, allocation
    failure) at an arbitrary point.  Observation only - no listed property covers it."""


_PRAATIO_DIR = None


def _crashing_tracer(n):
    import os
    import sys

    global _PRAATIO_DIR
    if _PRAATIO_DIR is None:
        import praatio

        _PRAATIO_DIR = os.path.dirname(praatio.__file__)
    left = [n]

    def local(frame, event, arg):
        if event == "line":
            left[0] -= 1
            if left[0] <= 0:
                sys.settrace(None)
                raise InjectedCrash(f"simulated crash at {os.path.basename(frame.f_code.co_filename)}:{frame.f_lineno}")
        return local

    def glob(frame, event, arg):
        if event == "call" and frame.f_code.co_filename.startswith(_PRAATIO_DIR):
            return local
        return None

    return glob


def invoke(world, out):
    """Run the real call.  Only Exception is caught: KeyboardInterrupt,
    SystemExit, MemoryError-as-BaseException etc. propagate to the driver."""
    import sys
    from .world import SINK

    before = SINK.lines
    crash_at = out.step.get("crash_at")
    try:
        if crash_at:
            sys.settrace(_crashing_tracer(crash_at))
        try:
            out.result = out.op.fn(world, out.recv, out.args, out.kwargs)
        finally:
            if crash_at:
                sys.settrace(None)
        out.ok = True
    except Exception as e:  # noqa: BLE001 - the outcome *is* the exception
        out.exc = e
    out.prints = SINK.lines - before
    if out.ok and out.step.get("out") is not None and (out.op.kind in ("ctor", "copy", "open", "alias")
                                                       or out.op.name == "env.list"):
        world.heap[out.step["out"]] = out.result
    return out
