"""One simulated run: world + oracles + recorded steps + event-log fingerprint."""
import hashlib
from collections import Counter

from . import ops as opsmod
from .world import Skip, World, obs, is_praatio_error
from .world import TextgridTier, Textgrid, audio


class Violation(Exception):
    def __init__(self, prop, oracle, op, cls, detail):
        self.prop = prop
        self.oracle = oracle
        self.op = op
        self.cls = cls
        self.detail = detail
        super().__init__(self.signature + ": " + str(detail))

    @property
    def signature(self):
        return f"{self.prop}/{self.oracle}/{self.op}/{self.cls}"


class Oracle:
    """before(): called with the decoded call, before it is made.
    after(): called when it has returned or raised.  Either may raise Violation."""

    name = "oracle"

    def start(self, run):
        pass

    def before(self, run, out):
        pass

    def after(self, run, out):
        pass

    def finish(self, run):
        pass


def _digest(o):
    """64-bit digest of an observation, independent of PYTHONHASHSEED"""
    return int.from_bytes(hashlib.blake2b(repr(o).encode(), digest_size=8).digest(), "big")


def _safe_repr(r):
    """repr for the event log: never an object address"""
    if _heapish(r):
        return repr(obs(r))
    if isinstance(r, (list, tuple)) and not hasattr(r, "_fields"):
        return "[" + ",".join(_safe_repr(x) for x in r) + "]"
    return repr(r)


def _heapish(o):
    return isinstance(o, (TextgridTier, Textgrid, audio.Wav))


class Run:
    def __init__(self, prop, cfg, oracles, record=True, trace=None, fs=None):
        self.prop = prop
        self.cfg = cfg
        self.world = World(fs)
        self.oracles = oracles
        self.steps = []
        self.record = record
        self.stats = Counter()
        self.h = hashlib.sha256()
        self.h.update(repr(sorted(cfg.items())).encode())
        self.trace = trace  # optional list collecting human-readable lines (replay)
        self.states = set()  # 64-bit digests of every distinct observed object state (reach measure)
        self.n_ok_mut = 0  # successful state-changing steps
        self.n_fail_mut = 0  # mutators that reached their failure branch
        self.executed = 0
        for o in oracles:
            o.start(self)

    # ------------------------------------------------------------------ step
    def do(self, step):
        """Execute one concrete step under the oracles.  Returns the Outcome,
        or None if the step was skipped (dead handle)."""
        w = self.world
        if self.record:
            self.steps.append(step)
        try:
            out = opsmod.resolve(w, step)
        except Skip:
            self.stats["skipped"] += 1
            if self.trace is not None:
                self.trace.append(f"  (skipped) {step}")
            return None
        w.seq += 1
        self.executed += 1
        for o in self.oracles:
            o.before(self, out)
        opsmod.invoke(w, out)
        kind = out.op.kind
        st = self.stats
        st["op:" + out.op.name + ":" + out.outcome] += 1
        if out.prints:
            st["probe:warning_printed"] += 1
        tag = step.get("tag")
        if tag:
            st["fault:" + tag + (":raised" if not out.ok else ":returned")] += 1
        if not out.ok and not is_praatio_error(out.exc):
            st["nonpraatio_exc:" + out.op.name + ":" + type(out.exc).__name__] += 1
        if kind == "mut":
            if out.ok:
                self.n_ok_mut += 1
            else:
                self.n_fail_mut += 1
        elif kind in ("ctor", "copy", "open") and out.ok:
            self.n_ok_mut += 1
        # event-log line -> fingerprint (never draws from a PRNG, never reads a clock)
        line = [w.seq, out.op.name, step.get("recv"), out.outcome]
        if out.recv is not None and _heapish(out.recv):
            o1 = obs(out.recv)
            line.append(o1)
            if kind == "mut":
                self.states.add(_digest(o1))
        if out.ok:
            r = out.result
            if _heapish(r) and not step.get("defer"):  # "defer": the result must not be looked at yet
                o2 = obs(r)
                line.append(o2)
                self.states.add(_digest(o2))
            elif kind == "query":
                line.append(_safe_repr(r))
        self.h.update(repr(line).encode())
        if self.trace is not None:
            self.trace.append(f"  #{w.seq} {_fmt_step(step)} -> {out.outcome}"
                              + (f" [{out.exc}]" if out.exc is not None else ""))
        for o in self.oracles:
            o.after(self, out)
        return out

    def finish(self):
        for o in self.oracles:
            o.finish(self)
        w = self.world
        self.h.update(repr(sorted((h, obs(o)) for h, o in w.heap.items()
                                  if _heapish(o) or isinstance(o, list))).encode())
        self.h.update(repr(sorted((w.rel(p), bytes(d)) for p, d in w.fs.files.items())).encode())
        self.h.update(repr(sorted(w.rel(d) for d in w.fs.dirs if d.startswith(w.ns))).encode())
        self.stats["fs_opens"] += w.fs.opens
        for k, v in w.fs.fault_counts.items():
            self.stats["fault:X-io:" + k] += v

    @property
    def fingerprint(self):
        return self.h.hexdigest()


def _fmt_step(step):
    s = step["op"]
    if step.get("recv") is not None:
        s = f"h{step['recv']}.{s}"
    s += "(" + ", ".join([_fmt(v) for v in step.get("a", [])]
                         + [f"{k}={_fmt(v)}" for k, v in step.get("k", {}).items()]) + ")"
    if step.get("out") is not None:
        s += f" => h{step['out']}"
    if step.get("tag"):
        s += f"  [{step['tag']}]"
    return s


def _fmt(v):
    if isinstance(v, dict):
        if "$h" in v:
            return f"h{v['$h']}"
        if "$I" in v:
            return "Interval" + repr(tuple(v["$I"]))
        if "$P" in v:
            return "Point" + repr(tuple(v["$P"]))
        if "$t" in v:
            return "(" + ", ".join(_fmt(x) for x in v["$t"]) + ("," if len(v["$t"]) == 1 else "") + ")"
        if "$b" in v:
            b = v["$b"]
            return f"bytes[{len(b)//2}]" if len(b) > 32 else f"bytes.fromhex({b!r})"
        if "$filter" in v:
            return f"labelIn({v['$filter']})"
    if isinstance(v, list):
        return "[" + ", ".join(_fmt(x) for x in v) + "]"
    return repr(v)
