"""C12 -- a Textgrid is an ordered, uniquely-named tier map; edits act tier-wise.

System: 1-2 live Textgrids, a pool of <= 6 tiers over <= 4 names.  Each
textgrid has a list-model twin (models.TgModel): [(name, tier object)] + span.

Map steps (addTier with/without index, removeTier, renameTier, replaceTier,
including every way they can be rejected) are compared with the model after
every step: names, order, *identity* of the tier each name maps to, span,
outcome class; every rejected call must leave the model state in place.

Tier-wise edit steps (crop, eraseRegion, insertSpace, editTimestamps,
mergeTiers) are differential against the REAL tier-level operation applied to
each tier separately (which is what C12 states); the expectations are computed
before the textgrid-level call is made.
"""
from .engine import Oracle, Violation
from .gen import G, H, BAD_OPTION, CROP_MODES, SPACE_MODES, REPORT, NAMES, GRID
from .models import TgModel, OK, RAISE
from .world import IntervalTier, PointTier, Textgrid, TextgridTier, obs_tier

PROP = "C12"

ASSUMPTIONS = [
    "tier-wise edits are compared with praatio's own tier-level operations (the property's wording); a bug common to both levels is invisible here",
    "validate()==True is required after every crop(strict/truncated), and after eraseRegion/insertSpace when the receiver was valid and the region/insertion point lies inside its span; the span of an edited textgrid is not checked otherwise (the statement fixes it only through validate())",
    "list.insert semantics for tierIndex (negative and oversized indices clamp like a Python list)",
]


def config(rng, tier):
    deep = tier == "thorough"
    return {
        "regime": rng.choice(["grid", "grid", "decimal"]),
        "labels": rng.choice(["plain", "punct", "empty"]),
        "pad_inserts": False,
        "uniform_span": rng.random() < 0.5,
        "tg_span": rng.choice(["none", "none", "given"]),
        "steps": rng.randrange(3, 31 if deep else 13),
        "fault_rate": rng.choice([0.0, 0.1, 0.25, 0.4]),
        "edits": rng.random() < 0.7,
        "interval_share": rng.choice([0.6, 0.6, 1.0, 0.0, 0.85]),
        "maxn": rng.choice([8] * 16 + [24, 40, 120]),
        # tier-name universe: the property's 4 plain names, or names with awkward shapes, or 10 names
        "names": rng.choice(["abcd"] * 6 + ["prefix", "odd", "unicode", "many", "braces", "nfc", "glob"]),
        "ulps": rng.random() < 0.5,  # decimal regime: window / region edges also one ulp or 1e-9 off a boundary
    }


def _raises(fn):
    try:
        return None, fn()
    except Exception as e:  # noqa: BLE001
        return e, None


class C12Oracle(Oracle):
    name = "tg-model"

    def start(self, run):
        self.models = {}
        self.pending = None

    def fail(self, op, cls, detail):
        raise Violation(PROP, self.name, op, cls, detail)

    # ------------------------------------------------------------ map steps
    def _compare(self, run, out, tg, m, when):
        name = out.op.name
        names = list(tg.tierNames)
        if names != m.names():
            self.fail(name, f"names-or-order/{when}", {"real": names, "model": m.names(), "step": _brief(out)})
        for n, t in m.slots:
            real = tg.getTier(n)
            if isinstance(t, tuple):  # ("renamed", oldtier)
                old = t[1]
                o1, o2 = obs_tier(real), obs_tier(old)
                if real.name != n or o1[0] != o2[0] or o1[2:] != o2[2:]:
                    self.fail(name, f"renamed-tier-differs/{when}", {"real": o1, "old": o2, "name": n})
            elif real is not t:
                self.fail(name, f"maps-to-other-tier/{when}",
                          {"name": n, "real": obs_tier(real), "model": obs_tier(t), "step": _brief(out)})
        if (tg.minTimestamp, tg.maxTimestamp) != (m.lo, m.hi):
            self.fail(name, f"span/{when}", {"real": [tg.minTimestamp, tg.maxTimestamp], "model": [m.lo, m.hi],
                                            "step": _brief(out)})
        if len(tg) != len(m.slots) or [t.name for t in tg.tiers] != m.names():
            self.fail(name, f"tiers-view/{when}", {"real": [t.name for t in tg.tiers], "model": m.names()})

    def before(self, run, out):
        self.pending = None
        name = out.op.name
        h = out.step.get("recv")
        m = self.models.get(h)
        if m is None or out.op.recv != "tg":
            return
        a, k = out.args, out.kwargs
        tg = out.recv
        if out.op.kind == "mut":
            self._compare(run, out, tg, m, "pre")
            if name == "tg.addTier":
                tier = a[0]
                idx = a[1] if len(a) > 1 else k.get("tierIndex")
                mode = a[2] if len(a) > 2 else k.get("reportingMode", "warning")
                exp, apply = m.add(tier, idx, mode)
            elif name == "tg.removeTier":
                exp, apply = m.remove(a[0])
            elif name == "tg.renameTier":
                exp, apply = m.rename(a[0], a[1])
            else:
                mode = a[2] if len(a) > 2 else k.get("reportingMode", "warning")
                exp, apply = m.replace(a[0], a[1], mode)
            self.pending = ("map", m, exp, apply)
            return
        if out.op.kind != "copy" or name in ("tg.new", "tg.appendTextgrid"):
            return
        # ---- tier-wise edits: expectations from the real per-tier operations
        tiers = list(tg.tiers)
        exp_raise = None
        exp = []
        lo, hi = tg.minTimestamp, tg.maxTimestamp
        need_valid = False
        if lo is None or hi is None:
            return  # span-less textgrid: crop etc. are not defined on it
        recv_valid = tg.validate("silence") if tiers else False
        if name == "tg.crop":
            s, e, mode, rebase = a[0], a[1], a[2], a[3]
            for t in tiers:
                ex, r = _raises(lambda t=t: t.crop(s, e, mode, rebase))
                exp_raise = exp_raise or ex
                exp.append(r)
            if not (isinstance(s, (int, float)) and isinstance(e, (int, float)) and s < e) or mode not in CROP_MODES:
                exp_raise = exp_raise or ValueError("bad args")
            span = (0.0, e - s) if rebase is True else (s, e)
            need_valid = mode in ("strict", "truncated") and bool(tiers)
        elif name == "tg.eraseRegion":
            s, e, shrink = a[0], a[1], a[2]
            for t in tiers:
                ex, r = _raises(lambda t=t: t.eraseRegion(s, e, "truncate", shrink))
                exp_raise = exp_raise or ex
                exp.append(r)
            if not s < e:
                exp_raise = exp_raise or ValueError("bad args")
            span = (lo, hi - (e - s) if shrink is True else hi)
            need_valid = recv_valid and lo <= s and e <= hi
        elif name == "tg.insertSpace":
            s, d = a[0], a[1]
            mode = a[2] if len(a) > 2 else k.get("collisionMode", "error")
            for t in tiers:
                ex, r = _raises(lambda t=t: t.insertSpace(s, d, mode))
                exp_raise = exp_raise or ex
                exp.append(r)
            if mode not in SPACE_MODES:
                exp_raise = exp_raise or ValueError("bad option")
            span = (lo, hi + d)
            need_valid = recv_valid and d > 0  # wherever the insertion point lies
        elif name == "tg.editTimestamps":
            off = a[0]
            mode = a[1] if len(a) > 1 else k.get("reportingMode", "warning")
            for t in tiers:
                if len(t.entries) == 0:
                    exp.append(t)  # an empty tier comes back empty under the same name
                    continue
                ex, r = _raises(lambda t=t: t.editTimestamps(off, mode))
                exp_raise = exp_raise or ex
                exp.append(r)
            if mode not in REPORT:
                exp_raise = exp_raise or ValueError("bad option")
            span = (lo, hi)
            self.pending = ("edit", name, exp, exp_raise, span, False, mode == "error", True)
            return
        elif name == "tg.mergeTiers":
            names = a[0] if len(a) > 0 else k.get("tierNames")
            preserve = a[1] if len(a) > 1 else k.get("preserveOtherTiers", True)
            if names is None:
                names = list(tg.tierNames)
            try:
                sel = [tg.getTier(n) for n in names]
            except Exception as ex:  # unknown name
                sel = []
                exp_raise = ex
            if exp_raise is None:
                if preserve:
                    exp.extend(t for t in tiers if t.name not in names)
                for cls in (IntervalTier, PointTier):
                    group = [t for t in sel if isinstance(t, cls)]
                    if group:
                        acc = group[0]
                        for t in group[1:]:
                            ex, acc2 = _raises(lambda acc=acc, t=t: acc.union(t))
                            if ex is not None:
                                exp_raise = ex
                                break
                            acc = acc2
                        exp.append(acc)
            span = (lo, hi)
            self.pending = ("edit", name, exp, exp_raise, span, False, False, True)
            return
        else:
            return
        lax = name == "tg.crop" and a[2] == "lax"
        self.pending = ("edit", name, exp, exp_raise, span, need_valid, False, lax)

    def after(self, run, out):
        name = out.op.name
        # new textgrids get a model twin taken from their observed state
        if out.ok and isinstance(out.result, Textgrid) and out.step.get("out") is not None \
                and out.op.kind in ("ctor", "copy", "open"):
            self.models[out.step["out"]] = TgModel.of(out.result)
        p = self.pending
        self.pending = None
        if p is None:
            return
        if p[0] == "map":
            _, m, exp, apply = p
            tg = out.recv
            got = out.outcome
            if exp == OK:
                if not out.ok:
                    self.fail(name, f"unexpected-{got}", {"step": _brief(out), "exc": repr(out.exc)})
                apply()
                if name == "tg.removeTier":
                    pass
                self._compare(run, out, tg, m, "post-ok")
                run.stats[f"c12:{tuple(m.names())}:{name}:ok"] += 1
            else:
                if out.ok:
                    self.fail(name, f"missing-{exp}", {"step": _brief(out), "names": list(tg.tierNames)})
                if exp != RAISE and got != exp:
                    self.fail(name, f"wrong-exception-{got}-for-{exp}", {"step": _brief(out), "exc": repr(out.exc)})
                self._compare(run, out, tg, m, f"post-{exp}")
                run.stats[f"c12:{tuple(m.names())}:{name}:{exp}"] += 1
            return
        _, name, exp, exp_raise, span, need_valid, may_raise_more, widen = p
        if exp_raise is not None:
            if out.ok:
                self.fail(name, "should-raise", {"per_tier_exc": repr(exp_raise), "step": _brief(out)})
            run.stats[f"c12:edit:{name}:raised-as-per-tier"] += 1
            return
        if not out.ok:
            if may_raise_more:
                run.stats[f"c12:edit:{name}:raised-reporting-error"] += 1
                return
            self.fail(name, f"should-not-raise-{out.outcome}", {"exc": repr(out.exc), "step": _brief(out)})
        r = out.result
        if r is out.recv:
            self.fail(name, "returned-self", {})
        enames = [t.name for t in exp]
        if list(r.tierNames) != enames:
            self.fail(name, "names-or-order", {"real": list(r.tierNames), "expected": enames, "step": _brief(out)})
        for i, (rt, et) in enumerate(zip(r.tiers, exp)):
            if obs_tier(rt) != obs_tier(et):
                kind = "I" if isinstance(et, IntervalTier) else "P"
                self.fail(name, f"tier-differs/{kind}", {"index": i, "real": obs_tier(rt), "per_tier": obs_tier(et),
                                                         "step": _brief(out)})
        if need_valid:
            run.stats["probe:validity_clause_checked"] += 1
            if not r.validate("silence"):
                self.fail(name, "result-not-valid" + ("/rounding" if _only_rounding(r) else ""), {"tg_span": [r.minTimestamp, r.maxTimestamp],
                                                     "tier_spans": [[t.minTimestamp, t.maxTimestamp] for t in r.tiers],
                                                     "step": _brief(out)})
        run.stats[f"c12:edit:{name}:ok"] += 1


def _only_rounding(tg):
    """True iff the textgrid is invalid ONLY because a tier span differs from
    the textgrid span by floating-point rounding noise (<= 1e-9 relative) while
    every tier is valid on its own.  Keeps the known rounding finding apart from
    structural span bugs, which keep the plain 'result-not-valid' signature."""
    differs = False
    for t in tg.tiers:
        if not t.validate("silence"):
            return False
        for a, b in ((t.minTimestamp, tg.minTimestamp), (t.maxTimestamp, tg.maxTimestamp)):
            if a != b:
                differs = True
                if abs(a - b) > 1e-9 * max(1.0, abs(a), abs(b)):
                    return False
    return differs


def _brief(out):
    from .engine import _fmt_step

    return _fmt_step(out.step)


def oracles(cfg):
    return [C12Oracle()]


# ----------------------------------------------------------------------------- generator
def generate(run, rng):
    cfg = run.cfg
    g = G(rng, cfg)
    w = run.world
    fr = cfg["fault_rate"]
    uni = cfg["uniform_span"]
    top = 16.0 if cfg["regime"] == "grid" else 1000.0

    kindp = cfg.get("interval_share", 0.6)

    import math as _m

    def mk_tier(name=None):
        st = g.ctor_interval(w, name) if rng.random() < kindp else g.ctor_point(w, name)
        if uni:
            st["a"][2], st["a"][3] = 0.0, top
        elif rng.random() < 0.3:
            st["a"][2], st["a"][3] = 0.0, rng.choice([top, top / 2, top + 2])
        if rng.random() < 0.06:
            # a span that differs from a live textgrid's span by one ulp (0.1+0.2 vs 0.3):
            # comparisons are exact, so such a tier does widen the textgrid / is rejected in 'error' mode
            spans = [(t.minTimestamp, t.maxTimestamp) for t in (w.heap[x] for x in w.live(Textgrid))
                     if t.minTimestamp is not None and t.maxTimestamp is not None]
            if spans:
                lo, hi = rng.choice(spans)
                st["a"][2] = float(lo) if rng.random() < 0.7 else max(0.0, _m.nextafter(float(lo), -_m.inf))
                st["a"][3] = _m.nextafter(float(hi), rng.choice([_m.inf, -_m.inf]))
        o = run.do(st)
        return st["out"] if (o is not None and o.ok) else None

    def mk_tg():
        h = w.new_handle()
        if cfg["tg_span"] == "none" or rng.random() < 0.3:
            a = []
        else:
            k = rng.random()
            if uni or k < 0.55:
                a = [0.0, top]
            elif k < 0.8:
                a = [rng.choice([0.0, 1.0]), rng.choice([top / 2, top])]
            else:  # a span given for one side only
                a = rng.choice([[0.0, None], [None, top], [1.0, None], [None, top / 2]])
        run.do({"op": "Textgrid", "a": a, "out": h})
        return h

    mk_tg()
    for _ in range(rng.randrange(2, 5)):
        mk_tier()
    for _ in range(cfg["steps"]):
        tgs = w.live(Textgrid)
        tiers = w.live(TextgridTier)
        if not tgs:
            mk_tg()
            continue
        if not tiers:
            mk_tier()
            continue
        tgh = g.pick(tgs)
        tg = w.heap[tgh]
        names = list(tg.tierNames)
        absent = [n for n in NAMES if n not in names] or ["zz"]  # "zz" is never a real tier name... unless all 4 are taken
        fault = rng.random() < fr
        r = rng.random()
        if r < 0.27:
            # addTier
            if fault and names and rng.random() < 0.5:
                clash = [h for h in tiers if w.heap[h].name in names]
                th = g.pick(clash) if clash else g.pick(tiers)
                tag = "F-clash"
            else:
                free = [h for h in tiers if w.heap[h].name not in names]
                th = g.pick(free) if free else mk_tier(g.pick(absent))
                tag = None
                if th is None:
                    continue
            n = len(names)
            idx = None if rng.random() < 0.4 else rng.randrange(-2, n + 3)
            if idx is not None and rng.random() < 0.08:
                idx = rng.choice([-100, 1000, True, False])
            if fault and tag is None and rng.random() < 0.12:
                idx, tag = rng.choice([2.0, "1", 0.5]), "F-index"  # list.insert rejects these
            mode = g.pick(REPORT)
            if fault and tag is None:
                if rng.random() < 0.4:
                    mode, tag = BAD_OPTION, "F-opt"
                else:
                    mode, tag = "error", "F-span"
            st = {"op": "tg.addTier", "recv": tgh, "a": [H(th)], "k": {"reportingMode": mode}, "tag": tag}
            if idx is not None or rng.random() < 0.3:
                st["k"]["tierIndex"] = idx
            run.do(st)
        elif r < 0.37:
            if names and not (fault and rng.random() < 0.6):
                run.do({"op": "tg.removeTier", "recv": tgh, "a": [g.pick(names)]})
            else:
                run.do({"op": "tg.removeTier", "recv": tgh, "a": [g.pick(absent)], "tag": "F-missing"})
        elif r < 0.5:
            if not names:
                run.do({"op": "tg.renameTier", "recv": tgh, "a": ["a", "b"], "tag": "F-missing"})
                continue
            old = g.pick(names)
            k = rng.random()
            if fault and len(names) > 1 and k < 0.6:
                run.do({"op": "tg.renameTier", "recv": tgh, "a": [old, g.pick([n for n in names if n != old])],
                        "tag": "F-clash"})
            elif fault and k < 0.8:
                run.do({"op": "tg.renameTier", "recv": tgh, "a": [g.pick(absent), g.pick(absent)], "tag": "F-missing"})
            elif k < 0.1:
                run.do({"op": "tg.renameTier", "recv": tgh, "a": [old, old]})
            else:
                run.do({"op": "tg.renameTier", "recv": tgh, "a": [old, g.pick(absent)]})
        elif r < 0.63:
            if not names:
                run.do({"op": "tg.replaceTier", "recv": tgh, "a": ["a", H(g.pick(tiers))], "tag": "F-missing"})
                continue
            old = g.pick(names)
            others = [n for n in names if n != old]
            mode = g.pick(REPORT)
            tag = None
            k = rng.random()
            if fault and others and k < 0.4:
                cl = [h for h in tiers if w.heap[h].name in others]
                th = g.pick(cl) if cl else g.pick(tiers)
                tag = "F-clash"
            elif fault and k < 0.55:
                th = g.pick(tiers)
                old, tag = g.pick(absent), "F-missing"
            else:
                ok = [h for h in tiers if w.heap[h].name not in others]
                th = g.pick(ok) if ok else mk_tier(old)
                if th is None:
                    continue
                if fault and k < 0.75:
                    mode, tag = BAD_OPTION, "F-opt"
                elif fault:
                    mode, tag = "error", "F-span"
            run.do({"op": "tg.replaceTier", "recv": tgh, "a": [old, H(th)], "k": {"reportingMode": mode}, "tag": tag})
        elif r < 0.72:
            mk_tier()
        elif r < 0.75:
            mk_tg()
        elif r < 0.78:
            run.do({"op": "tg.new", "recv": tgh, "out": w.new_handle()})
        elif cfg["edits"]:
            pool = g.pool_of(tg)
            out_h = w.new_handle()
            k = rng.random()
            if k < 0.25:
                a, b = g.span(pool)
                mode = g.pick(CROP_MODES)
                if fault:
                    if rng.random() < 0.5:
                        a, b = b, a
                    else:
                        mode = BAD_OPTION
                run.do({"op": "tg.crop", "recv": tgh, "a": [a, b, mode, rng.random() < 0.5], "out": out_h})
            elif k < 0.45:
                a, b = g.span(pool)
                if fault and rng.random() < 0.5:
                    a, b = b, a
                run.do({"op": "tg.eraseRegion", "recv": tgh, "a": [a, b, rng.random() < 0.5], "out": out_h})
            elif k < 0.65:
                mode = g.pick(SPACE_MODES) if not (fault and rng.random() < 0.3) else BAD_OPTION
                run.do({"op": "tg.insertSpace", "recv": tgh, "a": [g.time(pool), g.duration(), mode], "out": out_h})
            elif k < 0.78:
                mode = g.pick(REPORT) if not (fault and rng.random() < 0.3) else BAD_OPTION
                run.do({"op": "tg.editTimestamps", "recv": tgh, "a": [g.offset(), mode], "out": out_h})
            else:
                if rng.random() < 0.3 or not names:
                    sel = None
                elif rng.random() < 0.5:
                    sel = rng.sample(names, len(names))  # every tier, in an order of the caller's choosing
                else:
                    sel = rng.sample(names, rng.randrange(1, len(names) + 1))
                    if fault and rng.random() < 0.3:
                        sel.append("zz")
                    elif sel and rng.random() < 0.12:
                        sel.insert(rng.randrange(len(sel) + 1), rng.choice(sel))  # the same name given twice
                run.do({"op": "tg.mergeTiers", "recv": tgh, "a": [sel, rng.random() < 0.6], "out": out_h})
        # housekeeping
        lt = w.live(TextgridTier)
        if len(lt) > 6:
            # tiers held by a live textgrid stay reachable through it; dropping the handle is harmless
            run.do({"op": "env.drop", "a": lt[: len(lt) - 6]})
        lg = w.live(Textgrid)
        if len(lg) > 3:
            run.do({"op": "env.drop", "a": lg[: len(lg) - 3]})


def nontrivial(run):
    st = run.stats
    mapok = sum(v for k, v in st.items() if k.startswith("op:tg.") and k.endswith(":ok")
                and k.split(":")[1] in ("tg.addTier", "tg.removeTier", "tg.renameTier", "tg.replaceTier"))
    return mapok >= 2
