"""Locate the tree under test and import praatio from it (and only from it).

VERIF_REPO (default /repo) is the working tree whose *current* sources are
checked.  praatio is pure Python, so "rebuilding" is importing the sources
again in a fresh interpreter; nothing is cached between check invocations
(bytecode writing is disabled so the tree is not littered either).
"""
import os
import sys

sys.dont_write_bytecode = True

REPO = os.path.realpath(os.environ.get("VERIF_REPO", "/repo"))
VERIF = os.path.dirname(os.path.dirname(os.path.abspath(__file__)))


class HarnessError(Exception):
    """Anything that is the machinery's fault; exit code 2, never 0 or 1."""


def import_praatio():
    if REPO not in sys.path[:1]:
        sys.path.insert(0, REPO)
    import praatio  # noqa

    got = os.path.realpath(os.path.dirname(praatio.__file__))
    want = os.path.join(REPO, "praatio")
    if got != want:
        raise HarnessError(f"praatio imported from {got}, expected {want}")
    return praatio
