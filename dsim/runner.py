"""Run one simulated execution (generate or replay) and package the result."""
import hashlib
import random

from .engine import Run, Violation
from .world import capture_stdout
from . import simfs


def scenario(prop):
    from . import registry

    return registry.scenario(prop)


def run_seed(verif_seed, prop, tier, idx):
    d = hashlib.sha256(f"{verif_seed}|{prop}|{tier}|{idx}".encode()).digest()
    return int.from_bytes(d[:8], "big")


class Result:
    __slots__ = ("prop", "cfg", "steps", "fingerprint", "nontrivial", "stats", "violation",
                 "executed", "trace", "known", "states")

    def __init__(self):
        self.violation = None
        self.trace = None


class _WarningsAsErrors:
    """Environment knob (cfg["warn_error"]): run the history with Python's warnings filter set to
    'error', as under `python -W error` / PYTHONWARNINGS=error.  The unchanged library reports
    through print(), never through the warnings machinery, so nothing changes for it."""

    def __init__(self, on):
        self.on = on

    def __enter__(self):
        if self.on:
            import warnings

            self.cm = warnings.catch_warnings()
            self.cm.__enter__()
            warnings.simplefilter("error")

    def __exit__(self, *a):
        if self.on:
            self.cm.__exit__(*a)


def _package(run, sc, viol):
    res = Result()
    res.prop = run.prop
    res.cfg = run.cfg
    res.steps = run.steps
    res.stats = run.stats
    res.executed = run.executed
    res.states = run.states
    if viol is None:
        try:
            run.finish()
        except Violation as v:  # oracles that judge the whole history (C13 twin execution)
            viol = v
    if viol is None:
        res.nontrivial = bool(sc.nontrivial(run))
    else:
        res.nontrivial = False
        res.violation = {"signature": viol.signature, "detail": _jsonable(viol.detail),
                         "at_step": run.executed}
    res.fingerprint = run.fingerprint
    res.trace = run.trace
    return res


def generate(prop, verif_seed, tier, idx, fs=None, cfg_override=None):
    sc = scenario(prop)
    rng = random.Random(run_seed(verif_seed, prop, tier, idx))
    cfg = sc.config(rng, tier)
    if cfg_override:
        cfg.update(cfg_override)
    capture_stdout(True)
    run = Run(prop, cfg, sc.oracles(cfg), fs=fs)
    viol = None
    try:
        with _WarningsAsErrors(cfg.get("warn_error", False)):
            sc.generate(run, rng)
    except Violation as v:
        viol = v
    finally:
        capture_stdout(False)
        simfs.use(None)
    return _package(run, sc, viol)


def replay(prop, cfg, steps, trace=False):
    sc = scenario(prop)
    capture_stdout(True)
    run = Run(prop, cfg, sc.oracles(cfg), record=True, trace=[] if trace else None)
    viol = None
    try:
        with _WarningsAsErrors(cfg.get("warn_error", False)):
            for st in steps:
                run.do(st)
    except Violation as v:
        viol = v
    finally:
        capture_stdout(False)
        simfs.use(None)
    return _package(run, sc, viol)


def _jsonable(x, depth=0):
    if depth > 6:
        return repr(x)
    if isinstance(x, (str, int, float, bool)) or x is None:
        return x
    if isinstance(x, bytes):
        return {"$b": x.hex()} if len(x) <= 64 else {"$b_len": len(x), "$b_head": x[:32].hex()}
    if isinstance(x, dict):
        return {str(k): _jsonable(v, depth + 1) for k, v in x.items()}
    if isinstance(x, (list, tuple)):
        return [_jsonable(v, depth + 1) for v in x]
    return repr(x)
