import sys
from .driver import main

sys.exit(main())
