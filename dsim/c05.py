"""C05 -- every reachable tier is well-formed.

System: a heap of IntervalTiers and PointTiers (<= 6 live) driven through
histories of the property's operation alphabet with arbitrary arguments
(including ones that must be rejected), plus the "from opening a file" clause:
heap tiers are saved through SimFS in a random format and reopened, and
hand-written JSON textgrid files with arbitrary (unsorted, overlapping, padded)
entry lists are opened.

Oracle: the well-formedness invariant on every tier a step creates or mutates,
evaluated from the public surface only, and agreement of validate('silence')
with the simulator's own predicate.  An exception of any type is NOT a
violation (the statement forbids *returning* ill-formed tiers); exceptions that
are not praatio errors are counted in the evidence.  After a mutator raised,
the receiver must still be well-formed (a half-applied mutation).
"""
import json

from .engine import Oracle, Violation
from .gen import (G, H, INS_MODES, BAD_OPTION, CROP_MODES, ERASE_MODES, SPACE_MODES, REPORT,
                  FORMATS, NAMES)
from .world import IntervalTier, PointTier, Textgrid, TextgridTier, Interval, Point

PROP = "C05"

ASSUMPTIONS = [
    "timestamps are finite and non-negative on input (NaN/inf never generated)",
    "an exception of any type is accepted as 'did not return an ill-formed tier'",
    "well-formedness is judged from the public surface (entries, minTimestamp, maxTimestamp, validate)",
]

ALL_OPS = ["ctor_interval", "ctor_point", "ctor_bad", "crop", "erase", "space", "shift",
           "insert", "insert", "insert", "delete", "union", "difference", "intersection",
           "mergeLabels", "appendTier", "dejitter", "morph", "new", "roundtrip", "json_open",
           "ctor_shared", "tg_edit", "sort"]


def config(rng, tier):
    deep = tier == "thorough"
    ops = sorted(set(ALL_OPS))
    disabled = sorted(o for o in ops if rng.random() < 0.3 and o not in ("ctor_interval", "ctor_point"))
    regime = rng.choice(["grid", "grid", "grid", "decimal", "decimal", "decimal", "extreme"])
    return {
        "regime": regime,
        "ulps": regime == "decimal" and rng.random() < 0.5,
        "labels": rng.choice(["plain", "punct", "empty", "padded", "unicode", "numeric"]),
        "pad_inserts": True,
        "steps": rng.randrange(3, 41 if deep else 15),
        "fault_rate": rng.choice([0.0, 0.1, 0.25, 0.4]),
        "disabled": disabled,
        "mix": rng.choice(["both", "both", "interval", "point"]),
        # size class: mostly small tiers, sometimes tiers past any plausible small-n/large-n switch
        "maxn": rng.choice([8] * 30 + [24, 24, 24, 40, 40, 120, 120, 320, 320, 640]),
    }


# ----------------------------------------------------------------------------- invariant
def wellformed_problem(t):
    """None if tier t is well-formed, else (class, detail).  Public surface only."""
    ents = t.entries
    lo, hi = t.minTimestamp, t.maxTimestamp
    is_int = isinstance(t, IntervalTier)
    want_type = Interval if is_int else Point
    prev = None
    order_ok = True
    span_ok = True
    for e in ents:
        if not isinstance(e, want_type):
            return "entry-type", {"entry": repr(e)}
        lab = e[-1]
        if not isinstance(lab, str) or lab != lab.strip():
            return ("label-not-str" if not isinstance(lab, str) else "label-whitespace"), {"entry": repr(e)}
    first_problem = None
    for e in ents:
        if is_int:
            if not e.start < e.end:
                order_ok = False
                first_problem = first_problem or ("degenerate-interval", {"entry": repr(e)})
            if prev is not None and prev.end > e.start:
                order_ok = False
                first_problem = first_problem or (
                    "overlap-or-unsorted", {"prev": repr(prev), "entry": repr(e)})
            if e.start < lo or e.end > hi:
                span_ok = False
                first_problem = first_problem or ("out-of-span", {"entry": repr(e), "span": [lo, hi]})
        else:
            if prev is not None and prev.time > e.time:
                order_ok = False
                first_problem = first_problem or ("unsorted", {"prev": repr(prev), "entry": repr(e)})
            if e.time < lo or e.time > hi:
                span_ok = False
                first_problem = first_problem or ("out-of-span", {"entry": repr(e), "span": [lo, hi]})
        prev = e
    mine = order_ok and span_ok
    try:
        theirs = t.validate("silence")
    except Exception as ex:  # validate('silence') must not raise
        return "validate-raised", {"exc": repr(ex)}
    if first_problem is not None:
        return first_problem
    if theirs is not mine:
        return "validate-disagrees", {"validate": theirs, "simulator": mine,
                                      "entries": repr(ents), "span": [lo, hi]}
    return None


class C05Oracle(Oracle):
    name = "well-formed"

    def _check(self, t, opname, how):
        p = wellformed_problem(t)
        if p is not None:
            kind = "I" if isinstance(t, IntervalTier) else "P"
            raise Violation(PROP, self.name, opname, f"{p[0]}/{kind}/{how}",
                            dict(p[1], entries=repr(t.entries), span=[t.minTimestamp, t.maxTimestamp]))

    def after(self, run, out):
        kind = out.op.kind
        name = out.op.name
        if name == "tier.insertEntry":
            name += ":" + str(out.kwargs.get("collisionMode", "error"))
        if kind == "mut" and isinstance(out.recv, TextgridTier):
            self._check(out.recv, name, "returned" if out.ok else "raised-" + type(out.exc).__name__)
            run.stats["c05:checked"] += 1
        touched = set()
        if isinstance(out.recv, TextgridTier):
            touched.add(id(out.recv))
        if out.ok and isinstance(out.result, TextgridTier):
            touched.add(id(out.result))
        if kind != "env":
            # heap-wide: no step may leave ANY live tier ill-formed (hidden aliasing
            # between tiers shows up in a tier that was not operated on)
            for h, o in run.world.heap.items():
                if isinstance(o, TextgridTier) and id(o) not in touched:
                    self._check(o, name, "bystander")
                    run.stats["c05:checked_bystander"] += 1
        if out.ok:
            r = out.result
            if isinstance(r, TextgridTier) and kind in ("ctor", "copy", "alias"):
                self._check(r, name, "returned")
                run.stats["c05:checked"] += 1
            elif isinstance(r, Textgrid) and kind in ("open", "copy"):
                for t in r.tiers:
                    self._check(t, name, "returned")
                    run.stats["c05:checked"] += 1
                    run.stats["probe:reopened_tier_checked"] += 1


def oracles(cfg):
    return [C05Oracle()]


# ----------------------------------------------------------------------------- generator
def _json_file(g, rng):
    """A hand-written textgrid_json / json file with arbitrary entry lists."""
    tiers = []
    for i in range(rng.randrange(1, 4)):
        if rng.random() < 0.6:
            ents = g.interval_entries(5)
            if rng.random() < 0.35:  # make it ill-formed on purpose: overlap / degenerate / padded
                a, b = g.span()
                ents.append([a, b, " " + g.label() + " "])
                if rng.random() < 0.3:
                    ents.append([b, a, g.label()])
            cls = "IntervalTier"
        else:
            ents = g.point_entries(5, distinct=False)
            if rng.random() < 0.3:
                ents.append([g.raw_time(), "\t" + g.label()])
            cls = "TextTier"
        lo, hi = g.span()
        tiers.append({"class": cls, "name": NAMES[i], "xmin": lo, "xmax": hi, "entries": ents})
    lo, hi = g.span()
    if rng.random() < 0.5:
        doc = {"xmin": lo, "xmax": hi, "tiers": tiers}
    else:
        doc = {"start": lo, "end": hi,
               "tiers": {t["name"]: {"type": t["class"], "entries": t["entries"]} for t in tiers}}
    return json.dumps(doc, ensure_ascii=False).encode("utf-8")


def generate(run, rng):
    cfg = run.cfg
    g = G(rng, cfg)
    w = run.world
    ops = [o for o in ALL_OPS if o not in cfg["disabled"]]
    mix = cfg["mix"]
    fr = cfg["fault_rate"]
    fileno = [0]
    saved = []

    def ctor_any():
        if mix == "interval" or (mix == "both" and rng.random() < 0.6):
            return g.ctor_interval(w)
        return g.ctor_point(w, distinct=False)

    for _ in range(rng.randrange(2, 4)):
        run.do(ctor_any())

    def evict():
        live = w.live(TextgridTier)
        if len(live) > 6:
            run.do({"op": "env.drop", "a": live[: len(live) - 6]})
        tgs = w.live(Textgrid)
        if len(tgs) > 2:
            run.do({"op": "env.drop", "a": tgs[: len(tgs) - 2]})

    for _ in range(cfg["steps"]):
        tiers = w.live(TextgridTier)
        if not tiers:
            run.do(ctor_any())
            continue
        op = g.pick(ops)
        h = g.pick(tiers)
        t = w.heap[h]
        pool = g.world_pool(w)
        fault = rng.random() < fr
        st = None
        if op == "ctor_interval":
            st = g.ctor_interval(w)
        elif op == "ctor_point":
            st = g.ctor_point(w, distinct=False)
        elif op == "ctor_bad":
            st = g.ctor_bad_interval(w)
        elif op == "crop":
            st = g.step_crop(w, h, pool)
            if fault:
                k = rng.random()
                if k < 0.5:
                    st["a"][0], st["a"][1] = st["a"][1], st["a"][0]
                    st["tag"] = "F-degen"
                elif k < 0.7:
                    st["a"][1] = st["a"][0]
                    st["tag"] = "F-degen"
                else:
                    st["a"][2] = BAD_OPTION
                    st["tag"] = "F-opt"
        elif op == "erase":
            st = g.step_erase(w, h, pool)
            if fault:
                k = rng.random()
                if k < 0.5:
                    st["a"][0], st["a"][1] = st["a"][1], st["a"][0]
                    st["tag"] = "F-degen"
                elif k < 0.7:
                    st["a"][2] = BAD_OPTION
                    st["tag"] = "F-opt"
                else:
                    st["a"][2] = "error"
                    st["tag"] = "F-coll"
        elif op == "space":
            st = g.step_space(w, h, pool)
            if fault:
                k = rng.random()
                if k < 0.4:
                    st["a"][2] = BAD_OPTION
                    st["tag"] = "F-opt"
                elif k < 0.7:
                    st["a"][2] = "error"
                    st["tag"] = "F-coll"
                else:
                    st["a"][1] = -st["a"][1]
                    st["tag"] = "F-negdur"
        elif op == "shift":
            st = g.step_shift(w, h)
            if fault:
                st["a"][1] = BAD_OPTION if rng.random() < 0.4 else "error"
                st["tag"] = "F-opt" if st["a"][1] == BAD_OPTION else "F-span"
        elif op == "insert":
            st = g.step_insert(w, h, extra_pool=pool)
            if fault:
                k = rng.random()
                if k < 0.3:
                    st["k"]["collisionMode"] = BAD_OPTION
                    st["tag"] = "F-opt"
                elif k < 0.6 and isinstance(t, IntervalTier):
                    a, b = g.span(pool)
                    st["a"] = [g.enc_entry([b, a, g.ins_label()], "I")]
                    st["tag"] = "F-degen"
                else:
                    st["k"]["collisionMode"] = "error"
        elif op == "delete":
            st = g.step_delete(w, h, present=not (fault and rng.random() < 0.7))
        elif op in ("union", "appendTier", "dejitter"):
            h2 = g.same_type_partner(w, h, allow_cross=0.15 if op == "dejitter" else 0.04)
            if op == "dejitter":
                st = g.step_dejitter(w, h, h2)
            else:
                st = g.step_binary(w, h, h2, op)
        elif op in ("difference", "intersection", "mergeLabels"):
            its = w.live(IntervalTier)
            if not its:
                continue
            h = g.pick(its)
            st = g.step_binary(w, h, g.pick(its), op)
            if op != "difference" and rng.random() < 0.3:
                st["a"].append(g.pick(["-", ",", " ", "", " + "]))
        elif op == "morph":
            its = w.live(IntervalTier)
            if not its:
                continue
            h = g.pick(its)
            same = [x for x in its if len(w.heap[x].entries) == len(w.heap[h].entries)]
            h2 = g.pick(same) if rng.random() < 0.85 else g.pick(its)
            st = g.step_morph(w, h, h2)
        elif op == "new":
            st = g.step_new(w, h)
        elif op == "sort":
            st = {"op": "tier.sort", "recv": h}
        elif op == "roundtrip":
            # Textgrid of some heap tiers -> save (random format) -> open -> tiers back on the heap
            tg = w.new_handle()
            names = []
            run.do({"op": "Textgrid", "a": [], "out": tg})
            for hh in rng.sample(tiers, min(len(tiers), rng.randrange(1, 4))):
                run.do({"op": "tg.addTier", "recv": tg, "a": [H(hh)], "k": {"reportingMode": "silence"}})
            fileno[0] += 1
            path = f"/simfs/c05_{fileno[0]}.TextGrid"
            fmt = g.pick(FORMATS)
            run.do({"op": "tg.save", "recv": tg, "a": [path, fmt, rng.random() < 0.5],
                    "k": {"reportingMode": "silence"}})
            saved.append(path)
            # open it - sometimes twice, or an earlier file again: results of separate opens are independent objects
            for path2 in [path] + ([g.pick(saved)] if rng.random() < 0.35 else []):
                tg2 = w.new_handle()
                o = run.do({"op": "openTextgrid", "a": [path2, rng.random() < 0.5],
                            "k": {"reportingMode": "silence"}, "out": tg2})
                if o is not None and o.ok:
                    for nm in list(o.result.tierNames)[:3]:
                        run.do({"op": "tg.getTier", "recv": tg2, "a": [nm], "out": w.new_handle()})
            evict()
            continue
        elif op == "ctor_shared":
            lists = w.live(list)
            if not lists or rng.random() < 0.35:
                k = "I" if (mix == "interval" or (mix == "both" and rng.random() < 0.6)) else "P"
                run.do(g.step_mklist(w, k))
                lists = w.live(list)
                if len(lists) > 2:
                    run.do({"op": "env.drop", "a": lists[:1]})
                    lists = w.live(list)
            lh = g.pick(lists)
            k = g.list_kind(w.heap[lh])
            same = w.live(IntervalTier if k == "I" else PointTier)
            if same and rng.random() < 0.4:
                st = {"op": "tier.new", "recv": g.pick(same), "a": [], "k": {"entries": H(lh)},
                      "out": w.new_handle(), "tag": "E-shared-list"}
            else:
                st = g.ctor_from_list(w, lh)
        elif op == "tg_edit":
            # tiers that come out of the Textgrid-level counterparts are reachable tiers too
            tg = w.new_handle()
            run.do({"op": "Textgrid", "a": [], "out": tg})
            for hh in rng.sample(tiers, min(len(tiers), rng.randrange(1, 4))):
                run.do({"op": "tg.addTier", "recv": tg, "a": [H(hh)], "k": {"reportingMode": "silence"}})
            tgo = w.heap.get(tg)
            if tgo is None or not tgo.tierNames:
                continue
            names = list(tgo.tierNames)
            tpool = g.pool_of(tgo)
            out_h = w.new_handle()
            k = g.pick(["crop", "erase", "space", "shift", "merge", "append"])
            if k == "crop":
                a, b = g.span(tpool)
                st = {"op": "tg.crop", "recv": tg, "a": [a, b, g.pick(CROP_MODES), rng.random() < 0.5], "out": out_h}
            elif k == "erase":
                a, b = g.span(tpool)
                st = {"op": "tg.eraseRegion", "recv": tg, "a": [a, b, rng.random() < 0.5], "out": out_h}
            elif k == "space":
                st = {"op": "tg.insertSpace", "recv": tg, "a": [g.time(tpool), g.duration(), g.pick(SPACE_MODES)],
                      "out": out_h}
            elif k == "shift":
                st = {"op": "tg.editTimestamps", "recv": tg, "a": [g.offset(), g.pick(REPORT)], "out": out_h}
            elif k == "merge":
                sel = None if rng.random() < 0.5 else rng.sample(names, rng.randrange(1, len(names) + 1))
                st = {"op": "tg.mergeTiers", "recv": tg, "a": [sel, rng.random() < 0.6], "out": out_h}
            else:
                st = {"op": "tg.appendTextgrid", "recv": tg, "a": [H(tg), rng.random() < 0.5], "out": out_h}
            o = run.do(st)
            if o is not None and o.ok:
                run.stats["probe:tier_from_textgrid_level_op"] += len(o.result.tierNames)
                for nm in list(o.result.tierNames)[:2]:
                    run.do({"op": "tg.getTier", "recv": out_h, "a": [nm], "out": w.new_handle()})
            evict()
            continue
        elif op == "json_open":
            fileno[0] += 1
            path = f"/simfs/c05_{fileno[0]}.json"
            run.do({"op": "env.put", "a": [path, {"$b": _json_file(g, rng).hex()}]})
            tg2 = w.new_handle()
            o = run.do({"op": "openTextgrid", "a": [path, rng.random() < 0.5],
                        "k": {"reportingMode": "silence"}, "out": tg2, "tag": "E-foreign-file"})
            if o is not None and o.ok:
                for nm in o.result.tierNames:
                    run.do({"op": "tg.getTier", "recv": tg2, "a": [nm], "out": w.new_handle()})
            evict()
            continue
        if st is None:
            continue
        o = run.do(st)
        if o is not None:
            _probes(run, o)
        evict()


def _probes(run, o):
    """reach probes: rare-but-important situations actually hit (DESIGN s4 C05)"""
    st = run.stats
    name = o.op.name
    if name == "tier.insertEntry" and o.ok:
        cat = o.step.get("cat")
        mode = o.kwargs.get("collisionMode")
        if cat == "outside":
            st["probe:span_grown_by_insert"] += 1
        if cat in ("overlapN", "containing") and mode == "merge":
            st["probe:merge_of_several"] += 1
        e = o.args[0]
        if isinstance(e[-1], str) and e[-1] != e[-1].strip():
            st["probe:padded_label_offered_to_insertEntry"] += 1
    elif name == "tier.dejitter" and not o.ok:
        st["probe:dejitter_rejected"] += 1
    elif name == "tier.union" and o.ok:
        a, b = o.recv, o.args[0]
        if (a.minTimestamp, a.maxTimestamp) != (b.minTimestamp, b.maxTimestamp):
            st["probe:union_across_different_spans"] += 1
    elif name in ("IntervalTier", "PointTier") and o.step.get("tag") and not o.ok:
        st["probe:bad_ctor_rejected"] += 1


def nontrivial(run):
    return run.n_ok_mut >= 3
