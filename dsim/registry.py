"""Which properties have a check, their budgets, and the MANIFEST texts."""
import importlib

# property -> (module, quick runs, thorough runs)
TABLE = {
    "C13": ("dsim.c13", 8_000, 16_000),
    "C12": ("dsim.c12", 120_000, 3_000_000),
    "C16": ("dsim.c16", 60_000, 4_000_000),
    "C05": ("dsim.c05", 60_000, 3_000_000),
    "C11": ("dsim.c11", 60_000, 6_000_000),
}


def scenario(prop):
    return importlib.import_module(TABLE[prop][0])


def budget(prop, tier):
    return TABLE[prop][1 if tier == "quick" else 2]


MANIFEST_CHECKS = {
    "C13": {
        "level": "fault_enumeration",
        "technique": "deterministic simulation with fault injection: heap-wide frame condition over seeded histories, the catalogue of rejected calls and failing saves fired at every visited state, SimFS event trace for the destination file",
        "design_ref": "DESIGN.md s4 C13",
        "text": "Seeded histories (2-12 state-changing steps quick, up to 30 thorough) over a heap of aliasing tiers, textgrids, shared entry lists and SimFS files; after every state-changing step the catalogue of failing mutator calls (invalid option, collision in error mode, degenerate/malformed/None entry, non-string label aimed at a collider, missing entry/tier, name clash, span change under reportingMode='error', wrong index type, non-tier argument), of copy-returning operations and queries with fresh (also invalid) arguments, and of failing saves (bad format / reportingMode / minimumIntervalLength, min/max overrides that cut entries, invalid textgrid under 'error') against a pre-existing destination (random bytes, empty file, or an earlier save) is fired at live objects (quick: seeded 40% subset on 3 objects; thorough: everything on all objects). After every call the observation of EVERY live object, list argument and file is compared: no-mutation for copies/queries/saves (returned or raised), all-or-nothing for raised mutators, frame condition with identity-aware aliasing for successful mutators, event-level 'destination never opened/truncated/written/unlinked/renamed' and 'no other file created' for failed saves, overwrite-vs-fresh equality for successful saves, plain-argument immutability, freshness of query results (no mutable container handed out twice); and at the end of every run the history is re-executed WITHOUT the probes and must reach the same states (twin execution: failed calls and queries must leave no hidden state that changes later results). Enumeration is of the fault catalogue per visited state; the states themselves are sampled.",
        "note": "Trusted: the observation function (public surface: names, order, entries typed+exact incl. entry class, spans; file bytes and directory listing) and SimFS (raw bytes, stat/remove/rename/listdir) with its event trace. Injected device errors (ENOSPC/EIO/EACCES) are observations only, outside the property's listed failure causes. Tier objects shared by identity between textgrids are legitimate and followed by `is`. Generators only read attributes; every call into praatio is a recorded step.",
    },
    "C12": {
        "level": "exploration",
        "technique": "deterministic simulation: seeded add/remove/rename/replace histories (incl. rejected calls) on live Textgrids vs an ordered-list model; tier-wise edits differential against the real per-tier operations",
        "design_ref": "DESIGN.md s4 C12",
        "text": "Seeded search over histories (3-12 steps quick, up to 30 thorough) of addTier (indices -2..len+2 or None), removeTier, renameTier, replaceTier and their rejected variants (name clash, missing name, invalid option, span change under reportingMode='error') on 1-3 live textgrids over <= 4 names; after every step names, order, identity of the tier each name maps to, span and outcome class are compared with an ordered-list model, and rejected calls must leave the map as it was. crop/eraseRegion/insertSpace/editTimestamps/mergeTiers at textgrid level are compared tier by tier (exact) with the real tier-level operation, and validate() must hold where the statement requires it. The property's wish for exhaustive depth-5 closure is model checking and is not delivered; evidence reports the reached (state, op, outcome) table. Sampling, not proof.",
        "note": "Trusted: TgModel (90 lines). Tier-wise clause is differential against praatio's own tier methods (the property's wording), so a bug common to both levels is invisible. Span of edited textgrids is only constrained through validate().",
    },
    "C16": {
        "level": "exploration",
        "technique": "deterministic simulation: seeded edit histories on live Wav buffers vs a list-of-samples model, with save/open/QueryWav through an in-memory FS seam",
        "design_ref": "DESIGN.md s4 C16",
        "text": "Seeded search over histories (<= 6 edits quick with a 15% share of up to 15, <= 12 thorough) of insert/deleteSegment/replaceSegment/concatenate/getSubwav/getFrames/getSamples/new/duration and convertToBytes/convertFromBytes on 1-3 live Wav objects (widths 1/2/4, ten rates, <= 400 samples incl. range extremes, with size classes up to 70 000 samples and exact 4096/8192/16384 lengths, RIFF-looking bytes), times on sample positions, 5-45% off them, or 1e-6..1e-8 sample from a rounding tie; after every step the byte buffer must hold whole samples and decode (independent decoder) to the list model, return values equal the model's; save then Wav.open / QueryWav (interleaved and continued reads) through SimFS, also over a longer pre-existing file and repeatedly to one path, must give the same samples and parameters. Sampling, not proof.",
        "note": "Trusted: WavModel (25 lines) and the independent little-endian codec in dsim/c16.py; the real wave/io stack runs on the SimFS raw layer. Times within 0.05 sample of a rounding tie, start > end and times outside [0, duration] are not generated. QueryWav with off-grid times is only held to whole samples from the nearest start, length +-1.",
    },
    "C05": {
        "level": "exploration",
        "technique": "deterministic simulation: seeded operation/fault histories over a heap of live tiers (incl. save/open through an in-memory FS seam), well-formedness invariant checked after every step",
        "design_ref": "DESIGN.md s4 C05",
        "text": "Seeded search over histories (3-14 steps quick, up to 40 thorough) of the property's whole operation alphabet (plus the Textgrid-level counterparts as tier sources) with arbitrary and deliberately invalid arguments on a heap of up to 6 live interval/point tiers, in a dyadic-grid, a decimal (optionally ulp-perturbed) and an extreme-magnitude numeric regime, tiers of up to 8/24/40/120/320 entries, entry lists shared between constructor calls, plus save->open round trips in all four formats and hand-written JSON files with unsorted/overlapping/padded entries through SimFS. After every step EVERY live tier (created, mutated, receiver of a mutator that raised, or bystander) must satisfy the well-formedness invariant and validate() must agree with the simulator's predicate. Sampling, not proof.",
        "note": "Trusted: the 40-line invariant in dsim/c05.py. Exceptions of any type are accepted (the statement forbids returning ill-formed tiers); non-praatio exception types are reported in the evidence only. NaN/inf/negative input timestamps are not generated.",
    },
    "C11": {
        "level": "exploration",
        "technique": "deterministic simulation: seeded insert/delete histories on live tiers vs an executable list model, step-by-step, with rejected-call faults",
        "design_ref": "DESIGN.md s4 C11",
        "text": "Seeded search over histories (3-12 steps quick, up to 24 thorough) of insertEntry/deleteEntry on interval and point tiers of up to 8/24/40/120/320 entries, including tiers derived by other operations, inserts that resurrect deleted entries, entries as tuples/lists/namedtuples, ints and floats, option strings as fresh str objects; after every step outcome class, entries (exact, field by field) and span are compared with a list model; failing calls (collision in error mode, degenerate entry, missing entry, invalid option) must leave the tier unchanged; delete targets that differ from a stored entry by one ulp are accepted either way but nothing else may change. Sampling, not proof.",
        "note": "Trusted: the list model in dsim/models.py (60 lines), Python's float comparison. Whether an entry that differs from a stored one by rounding noise is 'the given entry' is left open by the statement: both behaviours are accepted there (relaxed oracle). collisionReportingMode='error' (accepted at run time but outside the documented Literal domain) is not generated.",
    },
}
