"""The simulated world: a heap of live praatio objects + the SimFS, the step
executor, and the observation function used by every oracle.

A *step* is a plain JSON-able dict (see DESIGN.md s3.2 / Appendix B):

  {"op": "tier.crop", "recv": 3, "a": [..positional..], "k": {..keyword..},
   "out": 7, "tag": "F-degen", "probe": false}

Encoded argument values: JSON scalars as they are (Python's json round-trips
finite floats bit-exactly via repr); {"$h": n} a heap handle; {"$I": [s,e,l]} an
Interval; {"$P": [t,l]} a Point; {"$t": [...]} a tuple; {"$b": "hex"} bytes;
{"$filter": [labels] | None} a label predicate; lists element-wise.

Replay never consults a PRNG: it executes recorded steps.  A step that refers
to a handle that is not live (because minimisation removed its creator, or the
creator raised) is *skipped*, which is what lets ddmin delete steps freely.
"""
import sys

from . import simfs
from .bootstrap import import_praatio

import_praatio()
from praatio import audio  # noqa: E402
from praatio import textgrid as tgmod  # noqa: E402
from praatio.data_classes.interval_tier import IntervalTier  # noqa: E402
from praatio.data_classes.point_tier import PointTier  # noqa: E402
from praatio.data_classes.textgrid import Textgrid  # noqa: E402
from praatio.data_classes.textgrid_tier import TextgridTier  # noqa: E402
from praatio.utilities import errors as perrors  # noqa: E402
from praatio.utilities.constants import Interval, Point  # noqa: E402


class CountingSink:
    """sys.stdout replacement while the system under test runs: praatio's
    reportingMode='warning' channel is print(); it must never reach the
    VIOLATION line protocol, and is counted as a reach probe."""

    def __init__(self):
        self.lines = 0

    def write(self, s):
        self.lines += s.count("\n")
        return len(s)

    def flush(self):
        pass


SINK = CountingSink()
_REAL_STDOUT = sys.stdout


def capture_stdout(on=True):
    sys.stdout = SINK if on else _REAL_STDOUT


class Skip(Exception):
    """Step refers to a handle that is not live."""


_NS = [0]


class World:
    def __init__(self, fs=None):
        self.heap = {}
        self.fs = fs if fs is not None else simfs.SimFS()
        simfs.install()
        simfs.use(self.fs)
        # Every execution gets its own path namespace: a recorded path
        # "/simfs/x" is resolved to "/simfs/r<n>/x".  The code under test may
        # keep process-global state keyed by file name (a cache); without this
        # an earlier run in the same process (generation, minimisation, the
        # in-process determinism slice) could leak into a later one.  The
        # namespace never reaches the event log.
        _NS[0] += 1
        self.ns = simfs.PREFIX + f"r{_NS[0]}/"
        self.fs.make_namespace(self.ns.rstrip("/"))
        self.next_handle = 0  # generator side only
        self.seq = 0

    # ------------------------------------------------------------------ heap
    def new_handle(self):
        h = self.next_handle
        self.next_handle += 1
        return h

    def live(self, cls=None):
        if cls is None:
            return sorted(self.heap)
        return [h for h in sorted(self.heap) if isinstance(self.heap[h], cls)]

    # ---------------------------------------------------------------- decode
    def rel(self, path):
        """namespace-free form of a resolved path (for logs and fingerprints)"""
        return simfs.PREFIX + path[len(self.ns):] if path.startswith(self.ns) else path

    def dec(self, v):
        if isinstance(v, str):
            if v.startswith(simfs.PREFIX):
                return self.ns + v[len(simfs.PREFIX):]
            # strings reaching a library from its users (config files, argv, json) are never
            # the library's own interned constants: always hand over a fresh str object, in
            # generation exactly as in replay (where they come out of json.load anyway)
            return "".join([v[:1], v[1:]]) if len(v) > 1 else v
        if isinstance(v, dict):
            if "$h" in v:
                h = v["$h"]
                if h not in self.heap:
                    raise Skip(h)
                return self.heap[h]
            if "$I" in v:
                return Interval(*v["$I"])
            if "$P" in v:
                return Point(*v["$P"])
            if "$t" in v:
                return tuple(self.dec(x) for x in v["$t"])
            if "$b" in v:
                return bytes.fromhex(v["$b"])
            if "$filter" in v:
                labs = v["$filter"]
                if labs is None:
                    return None
                labs = frozenset(labs)
                return lambda label: label in labs
            raise ValueError(f"bad encoded value {v!r}")
        if isinstance(v, list):
            return [self.dec(x) for x in v]
        return v

    def handles_in(self, step):
        """All handles a step refers to (receiver and arguments)."""
        out = []
        if step.get("recv") is not None:
            out.append(step["recv"])

        def walk(v):
            if isinstance(v, dict):
                if "$h" in v:
                    out.append(v["$h"])
                else:
                    for x in v.values():
                        walk(x)
            elif isinstance(v, list):
                for x in v:
                    walk(x)

        walk(step.get("a", []))
        walk(step.get("k", {}))
        return out


# ------------------------------------------------------------------ observation
def _num(x):
    """typed and exact, except that -0.0 and 0.0 are the same observation: they are equal under ==,
    and which of the two min()/max() return for a tie depends on argument order, not on behaviour"""
    if isinstance(x, float) and x == 0.0:
        return "0.0"
    return repr(x)


def _entry(e):
    return "(" + type(e).__name__ + "".join(", " + (_num(v) if isinstance(v, (int, float)) else repr(v)) for v in e) + ")"


def obs_tier(t):
    """Everything observable about a tier through its public surface, as a
    hashable value; numbers by repr so that 1 != 1.0 and every bit counts."""
    return (
        type(t).__name__,
        t.name,
        "[" + ", ".join(_entry(e) for e in t.entries) + "]",
        _num(t.minTimestamp),
        _num(t.maxTimestamp),
    )


def obs_tg(tg):
    return (
        "Textgrid",
        tuple(tg.tierNames),
        _num(tg.minTimestamp),
        _num(tg.maxTimestamp),
        tuple(obs_tier(t) for t in tg.tiers),
    )


def obs_wav(w):
    return ("Wav", bytes(w.frames), repr(tuple(w.params)), w.nchannels, w.sampleWidth, w.frameRate)


def obs(o):
    if isinstance(o, list):
        return ("list", repr(o))
    if isinstance(o, TextgridTier):
        return obs_tier(o)
    if isinstance(o, Textgrid):
        return obs_tg(o)
    if isinstance(o, audio.Wav):
        return obs_wav(o)
    if isinstance(o, audio.QueryWav):
        return ("QueryWav", repr(tuple(o.params)))
    raise TypeError(type(o))


def snapshot(world):
    """obs of every live object and every SimFS file."""
    return (
        {h: obs(o) for h, o in world.heap.items()},
        {p: bytes(d) for p, d in world.fs.files.items()},
    )


def is_praatio_error(exc):
    return isinstance(exc, perrors.PraatioException)
